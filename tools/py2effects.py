#!/usr/bin/env python3
"""py2effects: extract the *effect skeleton* of every function and method of pymeeus as a
Lean term of the language of lean/Pymeeus/Spec/Effects.lean (property C20).

    python3 tools/py2effects.py            # writes lean/Pymeeus/Gen/Effects/Current.lean + .work/effects.json
    python3 tools/py2effects.py --report   # also prints what was covered / given up on

The source is read from $VERIF_REPO (default /repo).  Stdlib only (ast).

What the skeleton keeps: allocation, aliasing, loads of possibly reference-valued slots, every
store (attribute, subscript, append/extend/sort/..., augmented assignment on a container), calls
(with dynamic dispatch over every class that defines the method when the receiver's class is not
known), control flow (all conditions nondeterministic), return, raise.  Numbers are dropped.

Conservative rule: anything the translator cannot classify becomes a *havoc* (a store through a
module-level object), which `check` rejects.
"""
import ast
import json
import os
import re
import sys

HERE = os.path.dirname(os.path.abspath(__file__))
ROOT = os.path.dirname(HERE)
REPO = os.environ.get('VERIF_REPO', '/repo')
PKG = os.path.join(REPO, 'pymeeus')
_LEAN = os.environ.get('VERIF_LEAN_DIR') or os.path.join(ROOT, 'lean')
OUT_LEAN = os.path.join(_LEAN, 'Pymeeus', 'Gen', 'Effects', 'Current.lean')
_WORK = os.environ.get('VERIF_WORK_DIR') or os.path.join(ROOT, '.work')
OUT_JSON = os.path.join(_WORK, 'effects.json')
OUT_REPORT = os.path.join(_LEAN, '.work', 'effects_report.json')

# The in-place mutators the documentation of pymeeus names (receiver = parameter 0).  Constructors
# (`__init__`) are mutators of the object being constructed.  Everything else that is public must be
# side-effect free.  (The same list is pinned by a theorem in Props/C20.lean.)
DOCUMENTED_MUTATORS = [
    'Angle.set', 'Angle.set_radians', 'Angle.set_ra', 'Angle.set_tolerance', 'Angle.to_positive',
    'Epoch.set', 'Interpolation.set', 'Interpolation.set_tolerance', 'CurveFitting.set',
    'Earth.set', 'Minor.set',
]

S = 'S'          # scalar (number, bool, str, None)
UNK = '?'        # unknown
LST = 'L'        # builtin container with unknown element types
OBJ = 'O'        # scalar or instance of a library class (element of an undocumented sequence)
EXT = 'X'        # object of an external pure library (datetime, ...)
FUN = 'F'        # a callable value


def N(k):
    """numeric nest of depth k (k >= 1): list/tuple/dict of ... of scalars."""
    return S if k <= 0 else ('N', min(k, 6))


def C(name):
    return ('C', name)


def T(elts):
    return ('T', tuple(elts))


def tdepth(t):
    if isinstance(t, tuple) and t[0] == 'T':
        return 1 + max([max([tdepth(x) for x in e] or [0]) for e in t[1]] or [0])
    return 0


def fs(*tags):
    return frozenset(tags)


TS = fs(S)
TU = fs(UNK)

MATH_FUNCS = {'sin', 'cos', 'tan', 'asin', 'acos', 'atan', 'atan2', 'sqrt', 'radians', 'degrees', 'floor',
              'ceil', 'log', 'log10', 'exp', 'fabs', 'pow', 'hypot', 'copysign', 'modf', 'fmod', 'isnan',
              'isinf', 'trunc'}
EXC_NAMES = {'ValueError', 'TypeError', 'ZeroDivisionError', 'RuntimeError', 'Exception', 'IndexError',
             'KeyError', 'NotImplementedError', 'ArithmeticError', 'OverflowError'}
BINOP = {ast.Add: 'add', ast.Sub: 'sub', ast.Mult: 'mul', ast.Div: 'truediv', ast.FloorDiv: 'floordiv',
         ast.Mod: 'mod', ast.Pow: 'pow', ast.LShift: 'lshift', ast.RShift: 'rshift', ast.BitAnd: 'and',
         ast.BitOr: 'or', ast.BitXor: 'xor', ast.MatMult: 'matmul'}
CMPOP = {ast.Eq: ('__eq__', '__eq__'), ast.NotEq: ('__ne__', '__ne__'), ast.Lt: ('__lt__', '__gt__'),
         ast.LtE: ('__le__', '__ge__'), ast.Gt: ('__gt__', '__lt__'), ast.GtE: ('__ge__', '__le__')}
UNOP = {ast.USub: '__neg__', ast.UAdd: '__pos__', ast.Invert: '__invert__'}
# builtin container / str methods
M_APPEND = {'append', 'add', 'insert'}
M_EXTEND = {'extend', 'update'}
M_MUT = {'pop', 'remove', 'sort', 'reverse', 'clear', 'popitem', 'setdefault', 'discard'}
M_PURE_ELEM = {'get', 'copy', 'keys', 'values', 'items'}
M_PURE_SCALAR = {'index', 'count', 'format', 'join', 'strip', 'lstrip', 'rstrip', 'lower', 'upper',
                 'capitalize', 'split', 'startswith', 'endswith', 'replace', 'isdigit', 'isalpha', 'find',
                 'title', 'zfill', 'ljust', 'rjust', 'center', 'encode', 'is_integer', 'bit_length',
                 'total_seconds', 'timetuple', 'toordinal', 'weekday', 'isoformat', 'utctimetuple',
                 'timestamp', 'date', 'time', 'year', 'month', 'day'}


class Fn(object):
    """One function / method of the library."""

    def __init__(self, module, cls, name, node, parent=None):
        self.module, self.cls, self.name, self.node, self.parent = module, cls, name, node, parent
        if parent is not None:
            self.qual = parent.qual + '.<locals>.' + name
        elif cls:
            self.qual = cls + '.' + name
        else:
            self.qual = module + '.' + name
        a = node.args
        self.static = any(isinstance(d, ast.Name) and d.id in ('staticmethod',) for d in node.decorator_list)
        self.params = [x.arg for x in a.posonlyargs + a.args + a.kwonlyargs]
        self.npos = len(a.posonlyargs) + len(a.args)        # params[:npos] can be given positionally,
        self.posonly = [x.arg for x in a.posonlyargs]       # params[npos:] only by keyword
        nd = len(a.defaults)
        pos = a.posonlyargs + a.args
        self.defaults = {}
        for p, d in zip(pos[len(pos) - nd:], a.defaults):
            self.defaults[p.arg] = d
        for p, d in zip(a.kwonlyargs, a.kw_defaults):
            if d is not None:
                self.defaults[p.arg] = d
        self.vararg = a.vararg.arg if a.vararg else None
        self.kwarg = a.kwarg.arg if a.kwarg else None
        self.allparams = self.params + ([self.vararg] if self.vararg else []) + ([self.kwarg] if self.kwarg else [])
        self.is_method = bool(cls) and not self.static and parent is None
        self.doc = ast.get_docstring(node) or ''
        self.ptypes = parse_doc_types(self.doc)
        self.locals = {}          # name -> type set
        self.ret = frozenset()
        self.nested = {}          # name -> Fn
        self.has_return_value = any(isinstance(n, ast.Return) for n in walk_own(node))
        self.id = None
        self.vararg_elem = TU
        self.infer = set()
        self.nva = 0              # number of model parameters that stand for *args
        self.private = name.startswith('_') and not (name.startswith('__') and name.endswith('__'))


def walk_own(fnode):
    """Nodes of a function body, not descending into nested function definitions."""
    stack = list(fnode.body)
    while stack:
        n = stack.pop()
        yield n
        for c in ast.iter_child_nodes(n):
            if isinstance(c, (ast.FunctionDef, ast.Lambda, ast.ClassDef)):
                continue
            stack.append(c)


def parse_doc_types(doc):
    out = {}
    for m in re.finditer(r':type\s+(\w+)\s*:\s*(.*(?:\n\s{8,}\S.*)*)', doc):
        out[m.group(1)] = ' '.join(m.group(2).split())
    return out


def mparams(f):
    """Model-level parameter list: the fixed parameters, then nva slots for *args, then **kwargs."""
    return f.params + ['*%d' % i for i in range(f.nva)] + ([f.kwarg] if f.kwarg else [])


class World(object):
    def __init__(self):
        self.modules = {}       # module name -> ast.Module
        self.classes = {}       # class name -> {method name -> Fn}
        self.class_module = {}
        self.funcs = {}         # module -> {name -> Fn}
        self.all = []           # every Fn
        self.mod_globals = {}   # module -> {name -> ('scalar',) | ('object', gid, typeset) }
        self.imports = {}       # module -> {local name -> ('mod', m) | ('from', module, name)}
        self.globals = []       # gid -> (module, name)
        self.fieldtypes = {}    # (class|'?', field) -> typeset
        self.fields = {}        # field name -> index
        self.inheritance = False
        self.global_values = {}  # (module, name) -> ast of the module-level value (for tuples of types)
        self.namedtuples = {}    # class name -> field names
        self.class_attrs = {}   # (class, name) -> ('scalar',) | ('object', gid, typeset): class-level data
        self.assumptions = set()
        self.giveups = []
        self.load()

    def load(self):
        for fn in sorted(os.listdir(PKG)):
            if not fn.endswith('.py') or fn == '__init__.py':
                continue
            mod = fn[:-3]
            tree = ast.parse(open(os.path.join(PKG, fn)).read())
            self.modules[mod] = tree
            self.funcs[mod] = {}
            self.mod_globals[mod] = {}
            self.imports[mod] = {}
        for mod, tree in self.modules.items():
            for n in tree.body:
                if isinstance(n, ast.Import):
                    for a in n.names:
                        self.imports[mod][a.asname or a.name.split('.')[0]] = ('mod', a.name)
                elif isinstance(n, ast.ImportFrom):
                    src = (n.module or '')
                    for a in n.names:
                        self.imports[mod][a.asname or a.name] = ('from', src, a.name)
                elif isinstance(n, ast.FunctionDef):
                    if n.name == 'main':
                        continue
                    self.add_fn(Fn(mod, None, n.name, n))
                elif isinstance(n, ast.ClassDef):
                    if any(not (isinstance(b, ast.Name) and b.id == 'object') for b in n.bases):
                        self.inheritance = True       # method resolution is not by the class alone any more
                    self.classes[n.name] = {}
                    self.class_module[n.name] = mod
                    for b in n.body:
                        if isinstance(b, ast.FunctionDef):
                            self.add_fn(Fn(mod, n.name, b.name, b))
                        elif isinstance(b, (ast.Assign, ast.AnnAssign)):
                            tgts = b.targets if isinstance(b, ast.Assign) else [b.target]
                            for tg in tgts:
                                if isinstance(tg, ast.Name):
                                    self.class_attrs[(n.name, tg.id)] = ('pending', b.value, mod)
                                else:
                                    self.giveups.append('%s: class-level statement %s' % (n.name, ast.dump(tg)[:40]))
        # module-level assignments
        for mod, tree in self.modules.items():
            for n in tree.body:
                if isinstance(n, ast.Assign) and len(n.targets) == 1 and isinstance(n.targets[0], ast.Name):
                    nt = namedtuple_fields(n.value)
                    if nt is not None:
                        # X = namedtuple('X', fields): a class whose instances hold the constructor's arguments
                        self.classes[n.targets[0].id] = {}
                        self.class_module[n.targets[0].id] = mod
                        self.namedtuples[n.targets[0].id] = nt
                        continue
                    self.mod_globals[mod][n.targets[0].id] = ('pending', n.value)
                    self.global_values[(mod, n.targets[0].id)] = n.value
        for (cn, an), (k, val, mod) in list(self.class_attrs.items()):
            tcl = self.literal_type(val, mod) if val is not None else TS
            if tcl == TS:
                self.class_attrs[(cn, an)] = ('scalar',)
            else:
                gid = len(self.globals)
                self.globals.append((mod, '%s.%s' % (cn, an)))
                self.class_attrs[(cn, an)] = ('object', gid, tcl)
                self.fieldtypes[(cn, an)] = tcl       # also visible through instances
        for mod in self.modules:
            for name, (k, val) in list(self.mod_globals[mod].items()):
                t = self.literal_type(val, mod)
                if t == TS:
                    self.mod_globals[mod][name] = ('scalar',)
                else:
                    gid = len(self.globals)
                    self.globals.append((mod, name))
                    self.mod_globals[mod][name] = ('object', gid, t)

    def add_fn(self, f):
        f.id = None
        self.all.append(f)
        if f.parent is not None:
            f.parent.nested[f.name] = f
        elif f.cls:
            self.classes[f.cls][f.name] = f
        else:
            self.funcs[f.module][f.name] = f
        for n in walk_own(f.node):
            pass
        for b in ast.walk(f.node):
            if b is not f.node and isinstance(b, ast.FunctionDef) and self.direct_parent(f.node, b):
                self.add_fn(Fn(f.module, f.cls, b.name, b, parent=f))

    @staticmethod
    def direct_parent(outer, inner):
        """inner is defined in outer's body, not inside a deeper nested def."""
        stack = list(outer.body)
        while stack:
            n = stack.pop()
            if n is inner:
                return True
            if isinstance(n, (ast.FunctionDef, ast.Lambda, ast.ClassDef)):
                continue
            stack.extend(ast.iter_child_nodes(n))
        return False

    def literal_type(self, v, mod):
        """Type of a module-level value expression."""
        if isinstance(v, ast.Constant):
            return TS
        if isinstance(v, ast.UnaryOp):
            return self.literal_type(v.operand, mod)
        if isinstance(v, ast.BinOp):
            a, b = self.literal_type(v.left, mod), self.literal_type(v.right, mod)
            return TS if a == TS and b == TS else TU
        if isinstance(v, (ast.List, ast.Tuple, ast.Set)):
            ts = [self.literal_type(e, mod) for e in v.elts]
            return nest_of(ts)
        if isinstance(v, ast.Dict):
            ts = [self.literal_type(e, mod) for e in v.values]
            return nest_of(ts)
        if isinstance(v, ast.Call) and isinstance(v.func, ast.Name) and v.func.id in self.classes:
            return fs(C(v.func.id))
        if isinstance(v, ast.Name):
            g = self.mod_globals.get(mod, {}).get(v.id)
            if g and g[0] == 'scalar':
                return TS
        return TU

    # ---- name resolution
    def resolve_name(self, mod, name):
        """-> ('class', C) | ('func', Fn) | ('gscalar',) | ('gobject', gid, type) | ('module', m) | None"""
        if name in self.mod_globals[mod]:
            g = self.mod_globals[mod][name]
            if g[0] == 'scalar':
                return ('gscalar',)
            if g[0] == 'object':
                return ('gobject', g[1], g[2])
        if name in self.funcs[mod]:
            return ('func', self.funcs[mod][name])
        if name in self.classes and self.class_module[name] == mod:
            return ('class', name)
        imp = self.imports[mod].get(name)
        if imp:
            if imp[0] == 'mod':
                return ('module', imp[1])
            src = imp[1].split('.')[-1]
            if imp[1].startswith('pymeeus') and src in self.modules:
                if imp[2] in self.classes and self.class_module[imp[2]] == src:
                    return ('class', imp[2])
                return self.resolve_name(src, imp[2])
            if imp[1] == 'math':
                return ('mathfn', imp[2]) if imp[2] in MATH_FUNCS or imp[2] in ('fsum',) else ('gscalar',)
            return ('extname', imp[1], imp[2])
        return None

    def classes_with(self, meth):
        return [c for c in sorted(self.classes) if meth in self.classes[c]]


def namedtuple_fields(v):
    """field names if v is `namedtuple('X', [...])` / `collections.namedtuple(...)` with literal fields, else None"""
    if not (isinstance(v, ast.Call) and ((isinstance(v.func, ast.Name) and v.func.id == 'namedtuple') or
                                         (isinstance(v.func, ast.Attribute) and v.func.attr == 'namedtuple'))):
        return None
    if len(v.args) < 2:
        return None
    f = v.args[1]
    if isinstance(f, (ast.List, ast.Tuple)) and all(isinstance(x, ast.Constant) and isinstance(x.value, str) for x in f.elts):
        return [x.value for x in f.elts]
    if isinstance(f, ast.Constant) and isinstance(f.value, str):
        return f.value.replace(',', ' ').split()
    return None


def nest_of(ts):
    """Type of a container display whose elements have types ts."""
    if all(t and all(x == S or (isinstance(x, tuple) and x[0] == 'N') for x in t) for t in ts):
        k = 0
        for t in ts:
            for x in t:
                k = max(k, 0 if x == S else x[1])
        return fs(N(k + 1))
    return fs(LST)


def is_num(t):
    return bool(t) and all(x == S or (isinstance(x, tuple) and x[0] == 'N') for x in t)


def is_scalar(t):
    return t == TS


NT_ELEM = {}      # namedtuple class -> union of the types of its fields (kept up to date by the typer)


def elem_type(t):
    """Type of an element of a value of type t (subscript / iteration)."""
    out = set()
    for x in t:
        if x == S:
            out.add(S)          # indexing a string
        elif isinstance(x, tuple) and x[0] == 'N':
            out.add(N(x[1] - 1))
        elif isinstance(x, tuple) and x[0] == 'T':
            for e in x[1]:
                out |= set(e or TU)
        elif isinstance(x, tuple) and x[0] == 'C' and x[1] in NT_ELEM:
            out |= set(NT_ELEM[x[1]])   # an element of a namedtuple instance: one of its fields
        elif isinstance(x, tuple) and x[0] == 'IT':
            out.add(T(list(x[1])))      # an element of zip(...) / enumerate(...) is a tuple of elements
        elif x == LST:
            out.add(OBJ)        # ASSUMPTION: sequences whose element type is not documented hold numbers
                                # or library objects, not nested builtin containers
        else:
            out.add(UNK)
    return frozenset(out)


def doc_type(text, world):
    """Type set from a docstring ':type x:' text."""
    if text is None:
        return TU
    out = set()
    rest = text
    for m in re.finditer(r':(?:py:)?class:`~?(?:[\w.]*\.)?(\w+)`', text):
        out.add(C(m.group(1)) if m.group(1) in world.classes else UNK)
    rest = re.sub(r':(?:py:)?class:`[^`]*`', ' ', rest)
    for tok in re.findall(r'[A-Za-z_]+', rest):
        tl = tok.lower()
        if tl in ('int', 'float', 'bool', 'str', 'string', 'none', 'boolean', 'integer'):
            out.add(S)
        elif tl in ('list', 'tuple', 'dict', 'set'):
            out.add(LST)
        elif tok in world.classes:
            out.add(C(tok))
        elif tl in ('or', 'and', 'of', 'a', 'an', 'the', 'object', 'objects'):
            continue
        elif tl in ('function', 'callable'):
            out.add(FUN)
        elif tl in ('datetime', 'date'):
            out.add(EXT)
        else:
            out.add(UNK)
    return frozenset(out) or TU


# =============================================================================== typing
class _ModuleScope(object):
    """stand-in for `Typer.fn` while a module-level expression is looked at"""
    def __init__(self, module):
        self.module, self.locals, self.nested, self.parent, self.vararg, self.kwarg = module, {}, {}, None, None, None


class Typer(object):
    """Coarse, flow-insensitive type sets; used only to prune dynamic dispatch and to recognise
    scalar-valued expressions.  Parameter types come from the docstrings' ':type' lines."""

    def __init__(self, world):
        self.w = world
        self.changed = False
        self.narrow = []
        self.dump_cache = {}
        for f in world.all:
            for p in f.allparams:
                if f.is_method and p == f.params[0]:
                    t = fs(C(f.cls))
                elif p == f.vararg or p == f.kwarg:
                    t = fs(LST)
                    if p == f.vararg:
                        if p in f.ptypes:
                            f.vararg_elem = doc_type(f.ptypes[p], world)
                        elif f.private or f.parent is not None:
                            f.vararg_elem = frozenset()
                        else:
                            f.vararg_elem = TU
                elif p in f.ptypes:
                    t = doc_type(f.ptypes[p], world)
                    if t == fs(LST):
                        # documented only as "list": element shape taken from the arguments the library
                        # itself passes (VSOP tables), see ASSUMPTIONS
                        f.infer.add(p)
                        t = frozenset()
                elif f.private or f.parent is not None:
                    f.infer.add(p)
                    t = frozenset()        # inferred from the call sites (all inside the library)
                else:
                    t = TU
                d = f.defaults.get(p)
                if d is not None and isinstance(d, ast.Constant):
                    t = t | TS
                f.locals[p] = t
            self.fn = f
            for n in walk_own(f.node):
                if isinstance(n, ast.Name) and isinstance(n.ctx, (ast.Store, ast.Del)) and n.id not in f.locals:
                    f.locals[n.id] = frozenset()
                # a docstring type contradicted by an isinstance test on the parameter: add the tested classes
                if isinstance(n, ast.Call) and isinstance(n.func, ast.Name) and n.func.id == 'isinstance' \
                        and len(n.args) == 2 and isinstance(n.args[0], ast.Name) and n.args[0].id in f.params:
                    d = self.narrowed(n).get(ast.dump(n.args[0]), frozenset())
                    d = frozenset(x for x in d if x != LST)
                    if n.args[0].id not in f.infer and f.locals.get(n.args[0].id):
                        f.locals[n.args[0].id] = f.locals[n.args[0].id] | d
        self.fixpoint()
        # list-documented parameters the library never passes anything to: unknown lists
        again = False
        for f in world.all:
            for p in f.infer:
                if not f.locals.get(p) and p in f.ptypes:
                    f.locals[p] = fs(LST)
                    again = True
        if again:
            self.fixpoint()

    def fixpoint(self):
        world = self.w
        for _ in range(16):
            self.changed = False
            for f in world.all:
                self.fn = f
                for st in f.node.body:
                    self.stmt(st)
            if not self.changed:
                break

    # -- helpers
    def grow_local(self, name, t):
        f = self.fn
        if name not in f.locals:
            return                  # only names the function itself binds are locals
        old = f.locals[name]
        new = widen(old | t)
        if new != old:
            f.locals[name] = new
            self.changed = True

    def grow_field(self, cls, fld, t):
        old = self.w.fieldtypes.get((cls, fld), frozenset())
        new = widen(old | t)
        if new != old:
            self.w.fieldtypes[(cls, fld)] = new
            self.changed = True

    def grow_ret(self, t):
        f = self.fn
        new = widen(f.ret | t)
        if new != f.ret:
            f.ret = new
            self.changed = True

    def field_type(self, tbase, fld):
        out = set()
        for x in tbase:
            if isinstance(x, tuple) and x[0] == 'C':
                out |= set(self.w.fieldtypes.get((x[1], fld), frozenset()))
                out |= set(self.w.fieldtypes.get((UNK, fld), frozenset()))
            elif x == S or x == EXT or (isinstance(x, tuple) and x[0] == 'N'):
                out.add(S)
            else:
                hit = False
                for (c, f2), t in self.w.fieldtypes.items():
                    if f2 == fld:
                        out |= set(t)
                        hit = True
                if not hit:
                    out.add(UNK)
        return frozenset(out)

    def lookup(self, name):
        """Type of a name in the current function (locals, enclosing function's locals, globals)."""
        f = self.fn
        while f is not None:
            if name in f.locals:
                return f.locals[name] or frozenset()
            if name in f.nested:
                return fs(FUN)
            f = f.parent
        r = self.w.resolve_name(self.fn.module, name)
        if r is None:
            return TS if name in ('True', 'False', 'None') else TU
        if r[0] == 'gscalar':
            return TS
        if r[0] == 'gobject':
            return r[2]
        return fs(FUN)

    def classes_of(self, t):
        out = []
        for x in t:
            if isinstance(x, tuple) and x[0] == 'C':
                out.append(x[1])
            elif x in (UNK, OBJ):
                return sorted(self.w.classes)
        return sorted(set(out))

    def may_be_plain(self, t):
        """may be a scalar or builtin container (i.e. not only instances of library classes)"""
        return any(not (isinstance(x, tuple) and x[0] == 'C') for x in t)

    def dunder_ret(self, cands):
        out = set()
        for f in cands:
            out |= set(f.ret)
        return frozenset(out)

    def reflected_possible(self, tl, fwd):
        """May Python fall back to the right operand's reflected method for `l <op> r`?  Only when the left
        operand may be a plain value, or a class that lacks the forward method `fwd`, or whose forward
        method can return NotImplemented.  (No class of the package derives from another one, so the
        subclass-priority rule of reflected operands never applies.)"""
        if self.may_be_plain(tl) or self.w.inheritance:
            return True
        for c in self.classes_of(tl):
            m = self.w.classes[c].get(fwd)
            if m is None:
                return True
            if any(isinstance(n, ast.Name) and n.id == 'NotImplemented' for n in ast.walk(m.node)):
                return True
        return False

    def binop_type(self, op, tl, tr):
        if not tl or not tr:
            return frozenset()
        if is_num(tl) and is_num(tr):
            if tl == TS and tr == TS:
                return TS
            return widen(frozenset(set(tl) | set(tr)))
        out = set()
        for c in self.classes_of(tl):
            m = self.w.classes[c].get('__%s__' % op)
            if m:
                out |= set(m.ret)
        if self.reflected_possible(tl, '__%s__' % op):
            for c in self.classes_of(tr):
                m = self.w.classes[c].get('__r%s__' % op)
                if m:
                    out |= set(m.ret)
        if self.may_be_plain(tl) and self.may_be_plain(tr):
            pl = set(x for x in tl if not (isinstance(x, tuple) and x[0] == 'C'))
            pr = set(x for x in tr if not (isinstance(x, tuple) and x[0] == 'C'))
            pl.discard(OBJ)
            pr.discard(OBJ)
            seq_l = any(x != S for x in pl)         # may the operand be a builtin sequence?
            seq_r = any(x != S for x in pr)
            # builtin sequences only support `+` (both operands sequences) and `*` (one of them); every other
            # operator on plain operands yields a scalar or raises
            seq_result = (seq_l and seq_r) if op == 'add' else ((seq_l or seq_r) if op == 'mul' else False)
            out.add(S)
            if seq_result:
                if UNK in pl or UNK in pr or LST in pl or LST in pr:
                    out.add(LST)
                else:
                    out |= set(x for x in pl | pr if isinstance(x, tuple) and x[0] in ('N', 'T'))
        return frozenset(out)

    # -- expressions
    def type_names(self, e, depth=0):
        """the class expressions of an isinstance() second argument; a module-level tuple of types
        (`_NUMBER = (int, float)`, possibly imported or nested) is looked through"""
        if isinstance(e, ast.Tuple):
            out = []
            for x in e.elts:
                out += self.type_names(x, depth)
            return out
        if isinstance(e, ast.Name) and depth < 4 and e.id not in self.fn.locals:
            mod = self.fn.module
            name = e.id
            for _ in range(4):
                if (mod, name) in self.w.global_values:
                    v = self.w.global_values[(mod, name)]
                    if isinstance(v, ast.Tuple):
                        save = self.fn
                        try:
                            self.fn = _ModuleScope(mod)
                            return self.type_names(v, depth + 1)
                        finally:
                            self.fn = save
                    break
                imp = self.w.imports.get(mod, {}).get(name)
                if imp and imp[0] == 'from' and imp[1].startswith('pymeeus') and imp[1].split('.')[-1] in self.w.modules:
                    mod, name = imp[1].split('.')[-1], imp[2]
                    continue
                break
        return [e]

    def narrowed(self, test):
        """{expr key: type} implied by an isinstance test (conjunctions only)."""
        out = {}
        if isinstance(test, ast.BoolOp) and isinstance(test.op, ast.And):
            for v in test.values:
                out.update(self.narrowed(v))
        elif isinstance(test, ast.Call) and isinstance(test.func, ast.Name) and test.func.id == 'isinstance' \
                and len(test.args) == 2:
            names = self.type_names(test.args[1])
            ts = set()
            for n in names:
                if isinstance(n, ast.Name) and n.id in ('int', 'float', 'str', 'bool', 'complex'):
                    ts.add(S)
                elif isinstance(n, ast.Name) and n.id in ('list', 'tuple', 'dict', 'set'):
                    ts.add(LST)
                elif isinstance(n, ast.Name) and n.id in self.w.classes:
                    ts.add(C(n.id))
                elif isinstance(n, ast.Attribute) and self.root_module(n) is not None:
                    ts.add(EXT)
                else:
                    ts.add(UNK)
            out[ast.dump(test.args[0])] = frozenset(ts)
        return out

    def ty(self, e):
        w = self.w
        if self.narrow and isinstance(e, (ast.Name, ast.Subscript, ast.Attribute)) and any(self.narrow):
            k = self.dump_cache.get(id(e))
            if k is None:
                k = self.dump_cache[id(e)] = ast.dump(e)
            for d in reversed(self.narrow):
                if k in d:
                    if LST in d[k]:
                        base = self.ty_raw(e)
                        keep = frozenset(x for x in base if x == LST or (isinstance(x, tuple) and x[0] in ('N', 'T')))
                        return (d[k] - fs(LST)) | (keep or fs(LST))
                    return d[k]
        return self.ty_raw(e)

    def ty_raw(self, e):
        w = self.w
        if e is None or isinstance(e, (ast.Constant, ast.JoinedStr, ast.Compare)):
            if isinstance(e, ast.Compare):
                self.ty(e.left)
                for c in e.comparators:
                    self.ty(c)
            return TS
        if isinstance(e, ast.Name):
            return self.lookup(e.id)
        if isinstance(e, ast.Attribute):
            rm = self.root_module(e)
            if rm is not None:
                return TS if rm == 'math' else fs(EXT)
            ns = self.namespace(e.value)
            if ns is not None:
                if ns[0] == 'class':
                    if ns[1] is None:
                        return TU
                    if e.attr in w.classes[ns[1]]:
                        return fs(FUN)
                    ca = w.class_attrs.get((ns[1], e.attr))
                    if ca is None:
                        return TU
                    return TS if ca[0] == 'scalar' else ca[2]
                if ns[0] == 'func':
                    return TS if e.attr in ('__name__', '__doc__') else TU      # a function attribute: anything
                if ns[0] == 'pmodule':
                    r2 = w.resolve_name(ns[1], e.attr)
                    if r2 and r2[0] == 'gobject':
                        return r2[2]
                    return TS if (r2 and r2[0] == 'gscalar') else fs(FUN)
            if e.attr in ('__class__',):
                return fs(EXT)
            if e.attr in ('__name__', '__doc__'):
                return TS
            return self.field_type(self.ty(e.value), e.attr)
        if isinstance(e, ast.Subscript):
            tb = self.ty(e.value)
            if isinstance(e.value, ast.Name) and e.value.id == self.fn.vararg and not isinstance(e.slice, ast.Slice):
                self.ty(e.slice)
                return self.fn.vararg_elem
            if isinstance(e.value, ast.Name) and e.value.id == self.fn.kwarg and isinstance(e.slice, ast.Constant) \
                    and e.slice.value in self.fn.ptypes:
                return doc_type(self.fn.ptypes[e.slice.value], self.w)
            if isinstance(e.slice, ast.Slice):
                for x in (e.slice.lower, e.slice.upper, e.slice.step):
                    if x is not None:
                        self.ty(x)
                return frozenset((x if (x == S or (isinstance(x, tuple) and x[0] == 'N')) else LST) for x in tb)
            self.ty(e.slice)
            if isinstance(e.slice, ast.Constant) and isinstance(e.slice.value, int):
                out = set()
                for x in tb:
                    if isinstance(x, tuple) and x[0] == 'T' and -len(x[1]) <= e.slice.value < len(x[1]):
                        out |= set(x[1][e.slice.value])
                    else:
                        out |= set(elem_type(fs(x)))
                return frozenset(out)
            return elem_type(tb)
        if isinstance(e, ast.BinOp):
            return self.binop_type(BINOP[type(e.op)], self.ty(e.left), self.ty(e.right))
        if isinstance(e, ast.UnaryOp):
            t = self.ty(e.operand)
            if isinstance(e.op, ast.Not):
                return TS
            if is_num(t) or not t:
                return t
            out = set()
            for c in self.classes_of(t):
                m = w.classes[c].get(UNOP[type(e.op)])
                if m:
                    out |= set(m.ret)
            if self.may_be_plain(t):
                out.add(S)
            return frozenset(out)
        if isinstance(e, ast.BoolOp):
            out = set()
            for v in e.values:
                out |= set(self.ty(v))
            return frozenset(out)
        if isinstance(e, ast.IfExp):
            self.ty(e.test)
            return self.ty(e.body) | self.ty(e.orelse)
        if isinstance(e, (ast.List, ast.Tuple, ast.Set)):
            ts = [self.ty(x.value if isinstance(x, ast.Starred) else x) for x in e.elts]
            if any(isinstance(x, ast.Starred) for x in e.elts):
                return fs(LST)
            n = nest_of(ts) if ts else fs(N(1))
            if n != fs(LST):
                return n
            if isinstance(e, ast.Tuple) and len(ts) <= 8:
                return widen(fs(T(ts)))
            return fs(LST)
        if isinstance(e, ast.Dict):
            ts = [self.ty(x) for x in e.values]
            for k in e.keys:
                if k is not None:
                    self.ty(k)
            return nest_of(ts) if ts else fs(N(1))
        if isinstance(e, (ast.ListComp, ast.GeneratorExp, ast.SetComp)):
            for g in e.generators:
                self.bind_target(g.target, elem_type(self.iter_type(g.iter)))
                for c in g.ifs:
                    self.ty(c)
            return nest_of([self.ty(e.elt)])
        if isinstance(e, ast.Lambda):
            return fs(FUN)
        if isinstance(e, ast.NamedExpr):
            tv = self.ty(e.value)
            self.bind_target(e.target, tv)      # (name := value): an assignment whose value is the value
            return tv
        if isinstance(e, ast.Call):
            return self.call_type(e)
        if isinstance(e, ast.Starred):
            return self.ty(e.value)
        return TU

    def root_module(self, e):
        """external module an attribute chain is rooted at (math, datetime, ...), else None"""
        while isinstance(e, ast.Attribute):
            e = e.value
        if isinstance(e, ast.Name):
            r = self.name_kind(e.id)
            if r and r[0] == 'module':
                return r[1]
            if r and r[0] == 'extname':
                return r[1]
        return None

    def namespace(self, e):
        """The namespace object an expression denotes, if any: ('class', C) | ('func', Fn or None) |
        ('pmodule', m) for a module of the package | ('xmodule', m) for an external module."""
        w = self.w
        if isinstance(e, ast.Name):
            f = self.fn
            while f is not None:
                if e.id in f.nested:
                    return ('func', f.nested[e.id])
                if e.id in f.locals:
                    return None
                f = f.parent
            r = w.resolve_name(self.fn.module, e.id)
            if r is None:
                return None
            if r[0] == 'class':
                return ('class', r[1])
            if r[0] == 'func':
                return ('func', r[1])
            if r[0] in ('mathfn', 'extname'):
                return ('func', None)
            if r[0] == 'module':
                m = r[1].split('.')[-1]
                return ('pmodule', m) if (r[1].startswith('pymeeus') and m in w.modules) else ('xmodule', r[1])
            return None
        if isinstance(e, ast.Attribute):
            if e.attr == '__class__':
                t = self.ty(e.value)
                cs = [x[1] for x in t if isinstance(x, tuple) and x[0] == 'C']
                return ('class', cs[0]) if len(cs) == 1 and len(t) == 1 else ('class', None)
            ns = self.namespace(e.value)
            if ns is None:
                return None
            if ns[0] == 'class' and ns[1] is not None and e.attr in w.classes[ns[1]]:
                return ('func', w.classes[ns[1]][e.attr])
            if ns[0] == 'xmodule':
                return ('xmodule', ns[1] + '.' + e.attr)       # datetime.datetime, ...
            if ns[0] == 'pmodule':
                r = w.resolve_name(ns[1], e.attr)
                if r and r[0] == 'class':
                    return ('class', r[1])
                if r and r[0] == 'func':
                    return ('func', r[1])
            return None
        return None

    def name_kind(self, name):
        f = self.fn
        while f is not None:
            if name in f.locals or name in f.nested:
                return None
            f = f.parent
        return self.w.resolve_name(self.fn.module, name)

    def iter_type(self, it):
        """Type of the container iterated (for `for x in it`), handling range/enumerate/zip."""
        if isinstance(it, ast.Call) and isinstance(it.func, ast.Name) and self.name_kind(it.func.id) is None \
                and it.func.id not in self.fn.locals:
            n = it.func.id
            if n == 'range':
                for a in it.args:
                    self.ty(a)
                return fs(N(1))
            if n == 'enumerate' and it.args:
                return fs(T([TS, elem_type(self.ty(it.args[0]))])) and fs(('IT', (TS, elem_type(self.ty(it.args[0])))))
            if n == 'zip':
                return fs(('IT', tuple(elem_type(self.ty(a)) for a in it.args)))
        if isinstance(it, ast.Name) and it.id == self.fn.vararg:
            return fs(('IT1', self.fn.vararg_elem))
        return self.ty(it)

    def bind_target(self, tgt, t):
        """Bind a (possibly tuple) target to a value of type t."""
        if isinstance(tgt, ast.Name):
            self.grow_local(tgt.id, t)
        elif isinstance(tgt, (ast.Tuple, ast.List)):
            for i, el in enumerate(tgt.elts):
                out = set()
                for x in t:
                    if isinstance(x, tuple) and x[0] == 'T' and len(x[1]) == len(tgt.elts):
                        out |= set(x[1][i])
                    else:
                        out |= set(elem_type(fs(x)))
                self.bind_target(el, frozenset(out))
        elif isinstance(tgt, ast.Attribute):
            tb = self.ty(tgt.value)
            cs = [x[1] for x in tb if isinstance(x, tuple) and x[0] == 'C']
            if len(cs) != len(tb):
                cs.append(UNK)
            for c in cs:
                self.grow_field(c, tgt.attr, t)
        elif isinstance(tgt, ast.Subscript):
            self.ty(tgt.value)
            self.ty(tgt.slice) if not isinstance(tgt.slice, ast.Slice) else None
        elif isinstance(tgt, ast.Starred):
            self.bind_target(tgt.value, fs(LST))

    def elem_of_iter(self, tt):
        """element type for a `for` target given iter_type result"""
        out = set()
        for x in tt:
            if isinstance(x, tuple) and x[0] == 'IT':
                out.add(T(list(x[1])))
            elif isinstance(x, tuple) and x[0] == 'IT1':
                out |= set(x[1])
            else:
                out |= set(elem_type(fs(x)))
        return frozenset(out)

    def callee_fns(self, call):
        """Library functions a call may reach: list of Fn (constructor: the class's __init__),
        and a flag 'other' if it may also be something else (builtin, external, unknown)."""
        w = self.w
        fnode = call.func
        if isinstance(fnode, ast.Name):
            f = self.fn
            while f is not None:
                if fnode.id in f.nested:
                    return ('fns', [f.nested[fnode.id]])
                if fnode.id in f.locals:
                    tb = f.locals[fnode.id]
                    cands = [w.classes[c]['__call__'] for c in self.classes_of(tb) if '__call__' in w.classes[c]]
                    if UNK in tb or FUN in tb or not cands:
                        return ('callback', cands, tb)
                    return ('callobj', cands, tb)
                f = f.parent
            r = w.resolve_name(self.fn.module, fnode.id)
            if r is None:
                return ('builtin', fnode.id)
            if r[0] == 'class':
                return ('ctor', r[1])
            if r[0] == 'func':
                return ('fns', [r[1]])
            if r[0] == 'mathfn':
                return ('math', r[1])
            if r[0] == 'extname':
                return ('ext', r[2])
            return ('callback', [])
        if isinstance(fnode, ast.Attribute):
            rm = self.root_module(fnode.value)
            if rm is not None:
                return ('math', fnode.attr) if rm == 'math' else ('ext', fnode.attr)
            if isinstance(fnode.value, ast.Name):
                r = self.name_kind(fnode.value.id)
                if r and r[0] == 'module':
                    return ('math', fnode.attr) if r[1] == 'math' else ('ext', fnode.attr)
                if r and r[0] == 'class':
                    m = w.classes[r[1]].get(fnode.attr)
                    return ('classcall', [m]) if m else ('unknown', 'no method %s.%s' % (r[1], fnode.attr))
                if r and r[0] == 'extname':
                    return ('ext', fnode.attr)
            tb = self.ty(fnode.value)
            cands = [w.classes[c][fnode.attr] for c in self.classes_of(tb) if fnode.attr in w.classes[c]]
            plain = self.may_be_plain(tb)
            return ('method', cands, plain, tb)
        return ('unknown', 'call of a computed function')

    def call_type(self, call):
        w = self.w
        for a in call.args:
            self.ty(a.value if isinstance(a, ast.Starred) else a)
        for k in call.keywords:
            self.ty(k.value)
        r = self.callee_fns(call)
        kind = r[0]
        if kind in ('fns', 'classcall'):
            for g in r[1]:
                self.flow_args(g, call, 0)
            return self.dunder_ret(r[1]) or frozenset()
        if kind == 'ctor':
            init = w.classes[r[1]].get('__init__')
            if init:
                self.flow_args(init, call, 1)
            if r[1] in w.namedtuples:
                flds = w.namedtuples[r[1]]
                i = 0
                for a in call.args:
                    if isinstance(a, ast.Starred):
                        te = elem_type(self.ty(a.value))
                        for fl in flds[i:]:
                            self.grow_field(r[1], fl, te)
                        i = len(flds)
                    else:
                        if i < len(flds):
                            self.grow_field(r[1], flds[i], self.ty(a))
                        i += 1
                for k in call.keywords:
                    if k.arg in flds:
                        self.grow_field(r[1], k.arg, self.ty(k.value))
                    elif k.arg is None:
                        for fl in flds:
                            self.grow_field(r[1], fl, TU)
                NT_ELEM[r[1]] = frozenset().union(*[w.fieldtypes.get((r[1], fl), frozenset()) for fl in flds]) \
                    if flds else frozenset()
            return fs(C(r[1]))
        if kind == 'math':
            return TS
        if kind == 'ext':
            return fs(EXT)
        if kind == 'callobj':
            return self.dunder_ret(r[1])
        if kind == 'callback':
            self.w.assumptions.add('%s calls a caller-supplied function (%s); it is assumed to have no side effect'
                                   % (self.fn.qual, call.func.id if isinstance(call.func, ast.Name) else '?'))
            return TU | self.dunder_ret(r[1])
        if kind == 'method':
            cands, plain, tb = r[1], r[2], r[3]
            out = set(self.dunder_ret(cands))
            m = call.func.attr
            for g in cands:
                self.flow_args(g, call, 1)
            if plain and m in M_APPEND | M_EXTEND and call.args:
                ta = self.ty(call.args[-1])
                if m in M_EXTEND:
                    ta = elem_type(ta)
                recv = call.func.value
                if not (isinstance(recv, ast.Name) and recv.id not in self.fn.locals):
                    self.bind_target(recv, nest_of([ta]))     # (never turns a module-level name into a local)
            if plain:
                if m in M_PURE_SCALAR or m in M_APPEND or m in M_EXTEND or m in ('sort', 'reverse', 'clear', 'remove'):
                    out.add(S)
                elif m in ('pop', 'get', 'setdefault', 'popitem'):
                    out |= set(elem_type(frozenset(x for x in tb if not (isinstance(x, tuple) and x[0] == 'C'))))
                elif m in ('copy', 'keys', 'values', 'items'):
                    out |= set(x for x in tb if not (isinstance(x, tuple) and x[0] == 'C')) or {LST}
                elif not cands:
                    out.add(UNK)
            return frozenset(out)
        if kind == 'builtin':
            n = r[1]
            at = [self.ty(a.value if isinstance(a, ast.Starred) else a) for a in call.args]
            if n in ('float', 'int', 'str', 'repr', 'bool', 'len', 'isinstance', 'issubclass', 'hash', 'id',
                     'callable', 'hasattr', 'print', 'format', 'ord', 'chr', 'divmod', 'pow', 'any', 'all'):
                return TS
            if n in ('abs', 'round'):
                if at and is_num(at[0]):
                    return TS
                out = set()
                if at and not at[0]:
                    return frozenset()
                for c in self.classes_of(at[0] if at else TU):
                    m = w.classes[c].get('__%s__' % n)
                    if m:
                        out |= set(m.ret)
                if self.may_be_plain(at[0] if at else TU):
                    out.add(S)
                return frozenset(out)
            if n in ('max', 'min'):
                if len(at) == 1:
                    return elem_type(at[0])
                out = set()
                for t in at:
                    out |= set(t)
                return frozenset(out)
            if n in ('sum', 'fsum'):
                return TS if (at and is_num(elem_type(at[0]))) else (frozenset() if at and not at[0] else TU)
            if n in ('list', 'tuple', 'sorted', 'reversed', 'set', 'dict'):
                if not at:
                    return fs(N(1))
                return frozenset((x if (isinstance(x, tuple) and x[0] == 'N') else LST) for x in at[0])
            if n in ('range',):
                return fs(N(1))
            if n == 'zip':
                return fs(('IT', tuple(elem_type(a) for a in at))) if all(at) else frozenset()
            if n == 'enumerate':
                return (fs(('IT', (TS, elem_type(at[0])))) if at[0] else frozenset()) if at else fs(LST)
            if n in ('map', 'filter'):
                return fs(LST)
            if n in EXC_NAMES:
                return fs(EXT)
            if n in ('type',):
                return fs(EXT)
            return TU
        return TU

    def flow_args(self, g, call, skip):
        """Actual argument types flow into the undocumented parameters of private / nested callees."""
        if not g.infer and not (g.private or g.parent is not None):
            return
        cur = self.fn
        params = g.params[skip:g.npos] if (g.is_method and skip) or (skip and g.name == '__init__') else g.params[:g.npos]
        if g.is_method and not skip and isinstance(call.func, ast.Attribute) and isinstance(call.func.value, ast.Name) \
                and self.name_kind(call.func.value.id) and self.name_kind(call.func.value.id)[0] == 'class':
            params = g.params[:g.npos]   # Class.method(obj, ...) form
        i = 0
        for a in call.args:
            if isinstance(a, ast.Starred):
                te = elem_type(self.ty(a.value))
                if isinstance(a.value, ast.Name) and a.value.id == cur.vararg:
                    te = cur.vararg_elem
                for p in params[i:]:
                    self.flow_one(g, p, te)
                if g.vararg:
                    self.flow_vararg(g, te)
                i = len(params)
            else:
                ta = self.ty(a)
                if i < len(params):
                    self.flow_one(g, params[i], ta)
                elif g.vararg:
                    self.flow_vararg(g, ta)
                i += 1
        for k in call.keywords:
            if k.arg and k.arg in g.params:
                self.flow_one(g, k.arg, self.ty(k.value))

    def flow_one(self, g, p, t):
        if p not in g.infer:
            return
        old = g.locals.get(p, frozenset())
        new = widen(old | (t or frozenset()))
        if new != old:
            g.locals[p] = new
            self.changed = True

    def flow_vararg(self, g, t):
        if g.vararg in g.ptypes:
            return
        new = widen(g.vararg_elem | (t or frozenset()))
        if new != g.vararg_elem:
            g.vararg_elem = new
            self.changed = True

    # -- statements
    def stmt(self, st):
        if isinstance(st, ast.Assign):
            t = self.ty(st.value)
            for tg in st.targets:
                if isinstance(tg, (ast.Tuple, ast.List)) and isinstance(st.value, (ast.Tuple, ast.List)) \
                        and len(tg.elts) == len(st.value.elts):
                    for a, b in zip(tg.elts, st.value.elts):
                        self.bind_target(a, self.ty(b))
                else:
                    self.bind_target(tg, t)
        elif isinstance(st, ast.AugAssign):
            tl = self.ty(st.target)
            tr = self.ty(st.value)
            op = BINOP[type(st.op)]
            out = set(self.binop_type(op, tl, tr))
            for c in self.classes_of(tl):
                m = self.w.classes[c].get('__i%s__' % op)
                if m:
                    out |= set(m.ret)
            self.bind_target(st.target, frozenset(out))
        elif isinstance(st, ast.AnnAssign):
            if st.value is not None:
                self.bind_target(st.target, self.ty(st.value))
        elif isinstance(st, ast.Return):
            self.grow_ret(self.ty(st.value) if st.value is not None else TS)
        elif isinstance(st, ast.Expr):
            self.ty(st.value)
        elif isinstance(st, ast.If):
            self.ty(st.test)
            self.narrow.append(self.narrowed(st.test))
            for s in st.body:
                self.stmt(s)
            self.narrow.pop()
            for s in st.orelse:
                self.stmt(s)
        elif isinstance(st, ast.While):
            self.ty(st.test)
            for s in st.body + st.orelse:
                self.stmt(s)
        elif isinstance(st, ast.For):
            self.bind_target(st.target, self.elem_of_iter(self.iter_type(st.iter)))
            for s in st.body + st.orelse:
                self.stmt(s)
        elif isinstance(st, ast.Raise):
            if st.exc is not None:
                self.ty(st.exc)
        elif isinstance(st, ast.Try):
            for s in st.body + st.orelse + st.finalbody:
                self.stmt(s)
            for h in st.handlers:
                for s in h.body:
                    self.stmt(s)
        elif isinstance(st, ast.With):
            for s in st.body:
                self.stmt(s)
        elif isinstance(st, ast.Assert):
            self.ty(st.test)
        # FunctionDef (nested): typed on its own as a member of world.all


def widen(t):
    """Keep type sets small: deep / numerous tuple shapes collapse to LST."""
    out = set()
    ntup = 0
    for x in t:
        if isinstance(x, tuple) and x[0] == 'T':
            ntup += 1
            if tdepth(x) > 2:
                out.add(LST)
                continue
        out.add(x)
    if ntup > 3:
        out = set(x for x in out if not (isinstance(x, tuple) and x[0] == 'T')) | {LST}
    return frozenset(out)


# =============================================================================== translation
class Havoc(Exception):
    pass


def contains_jump(stmts):
    """break/continue belonging to the enclosing loop occurs in these statements"""
    for st in stmts:
        if isinstance(st, (ast.Break, ast.Continue)):
            return True
        if isinstance(st, (ast.For, ast.While)):
            if contains_jump(st.orelse):
                return True
            continue
        if isinstance(st, (ast.FunctionDef, ast.ClassDef)):
            continue
        for fld in ('body', 'orelse', 'finalbody'):
            if contains_jump(getattr(st, fld, []) or []):
                return True
        for h in getattr(st, 'handlers', []) or []:
            if contains_jump(h.body):
                return True
    return False


class Tr(object):
    """Translate one function to the effect language (IR = nested python lists/tuples)."""

    def __init__(self, world, typer, fn, inlined=None):
        self.w, self.ty_, self.fn = world, typer, fn
        self.vars = {}
        self.names = []
        self.tmp_slots = []
        self.tmp_ptr = 0
        for p in mparams(fn):
            self.var(p)
        self.nparams = len(mparams(fn))
        self.S = self.newtmp('S')       # never assigned: always holds a scalar
        self.out = []
        self.notes = []
        self.inline_stack = []
        self.inlined = set()
        self.scope = [({}, fn)]            # inlining scopes: (renaming, Fn)

    # -- variables
    def var(self, name):
        ren, _ = self.scope[-1] if hasattr(self, 'scope') and self.scope else ({}, None)
        key = ren.get(name, name)
        if key not in self.vars:
            self.vars[key] = len(self.names)
            self.names.append(key)
        return self.vars[key]

    def newtmp(self, hint='t'):
        """a temporary; slots are recycled when the Python statement that used them ends"""
        if hint != 'S' and self.tmp_ptr < len(self.tmp_slots):
            v = self.tmp_slots[self.tmp_ptr]
            self.tmp_ptr += 1
            return v
        k = '%s#%d' % (hint, len(self.names))
        self.vars[k] = len(self.names)
        self.names.append(k)
        if hint != 'S':
            self.tmp_slots.append(self.vars[k])
            self.tmp_ptr += 1
        return self.vars[k]

    def cur(self):
        return self.scope[-1][1]

    def emit(self, *st):
        self.out.append(tuple(st))

    def block(self, f):
        """run f() collecting its statements into a fresh list"""
        save = self.out
        self.out = []
        try:
            f()
            res = self.out
        finally:
            self.out = save
        return res

    def ty(self, e):
        self.ty_.fn = self.cur()
        t = self.ty_.ty(e)
        return t if t else TU

    def havoc(self, why):
        self.notes.append(why)
        self.w.giveups.append('%s: %s' % (self.fn.qual, why))
        t = self.newtmp('h')
        self.emit('global', t, 0)
        self.emit('store', t, 'e', self.S)

    def v(self, x):
        """variable to pass where a variable is required (scalar -> S)"""
        return self.S if x is None else x

    # -- dispatch helpers
    def choice(self, alts):
        """alts: list of statement lists -> nested ite"""
        if not alts:
            return
        if len(alts) == 1:
            self.out.extend(alts[0])
            return
        node = alts[-1]
        for a in reversed(alts[:-1]):
            node = [('ite', a, node)]
        self.out.extend(node)

    def call_fn(self, res, g, argvars):
        """emit a call of library function g with already-bound argument variables"""
        self.emit('call', res, g, list(argvars))

    def bind_args(self, g, pos, kw, star=None, dstar=None, recv=None):
        """Argument variables for callee g.  pos: list of vars/None; kw: {name: var/None};
        star: None | ('spread', [vars]) | ('iter', var) for a *actual; dstar: var of a **mapping actual;
        recv: receiver var."""
        params = list(g.params)
        slots = params[:g.npos] + ['*%d' % i for i in range(g.nva)]      # keyword-only parameters take no positional
        vals = {}
        actual = ([recv] if recv is not None else []) + list(pos)
        if star is not None and star[0] == 'spread':
            actual = actual + list(star[1])
        i = 0
        for a in actual:
            if i < len(slots):
                vals[slots[i]] = self.v(a)
            i += 1                       # positional actuals beyond the model's *args slots are dropped
        if star is not None and star[0] == 'iter':
            for p in slots[i:]:
                if p not in kw:
                    t = self.newtmp('a')
                    self.emit('load', t, star[1], 'e')
                    vals[p] = t
        rest_kw = {}
        for k, a in kw.items():
            if k in params:
                vals[k] = self.v(a)
            else:
                rest_kw[k] = a
        if g.kwarg:
            if dstar is not None and not rest_kw:
                vals[g.kwarg] = dstar
            else:
                d = self.newtmp('kw')
                self.emit('new', d)
                for k, a in rest_kw.items():
                    if a is not None:
                        self.emit('store', d, 'e', a)
                if dstar is not None:
                    t = self.newtmp('a')
                    self.emit('load', t, dstar, 'e')
                    self.emit('store', d, 'e', t)
                vals[g.kwarg] = d
        elif dstar is not None:
            for p in params:
                if p not in vals:
                    t = self.newtmp('a')
                    self.emit('load', t, dstar, 'e')
                    vals[p] = t
        out = []
        for p in mparams(g):
            if p in vals:
                out.append(vals[p])
            else:
                d = g.defaults.get(p)
                if d is None or isinstance(d, ast.Constant) or (isinstance(d, ast.UnaryOp) and isinstance(d.operand, ast.Constant)):
                    out.append(self.S)
                else:
                    # a non-constant default is one object shared by all calls: a module-level object
                    t = self.newtmp('d')
                    self.emit('global', t, 0)
                    out.append(t)
        return out

    def dunder(self, names_and_operands, plain_possible, res=None, result_scalar=False):
        """Dynamic dispatch: names_and_operands = [(method name, receiver var, receiver type, [other vars])].
        Emits a choice between the calls to every class that may define the method, plus a pure
        scalar alternative when the operands may be plain values.  Returns the result variable
        (None if the result is certainly scalar)."""
        alts = []
        r = res if res is not None else self.newtmp('r')
        any_call = False
        for (m, rv, rt, others) in names_and_operands:
            if rv is None:
                continue
            for c in self.ty_.classes_of(rt):
                g = self.w.classes[c].get(m)
                if g is None:
                    continue
                any_call = True

                def mk(g=g, rv=rv, others=others):
                    args = self.bind_args(g, [rv] + list(others), {})
                    self.call_fn(r, g, args)
                    if result_scalar:
                        self.emit('scalar', r)
                alts.append(self.block(mk))
        if not any_call:
            return None
        if plain_possible:
            alts.append([('scalar', r)])
        self.choice(alts)
        return None if result_scalar else r

    def truth(self, v, t):
        """truth test of a value (bool(x)): __bool__ / __len__ of library classes"""
        if v is None:
            return
        self.dunder([('__bool__', v, t, []), ('__len__', v, t, [])], True, result_scalar=True)

    def to_scalar(self, v, t, names):
        """float(x), str(x), ...: dispatch to the given dunders; result scalar"""
        if v is None:
            return
        self.dunder([(n, v, t, []) for n in names], True, result_scalar=True)

    # -- expressions: return a variable, or None when the value is certainly a scalar
    def expr(self, e):
        try:
            return self.expr_(e)
        except Havoc as h:
            self.havoc(str(h))
            return None

    def expr_(self, e):
        w = self.w
        if e is None or isinstance(e, ast.Constant):
            return None
        t = self.ty(e)
        if self.is_vararg(e):
            return self.va_tuple()
        if isinstance(e, ast.Name):
            return self.name(e.id, t)
        if isinstance(e, ast.Subscript) and self.is_vararg(e.value):
            if isinstance(e.slice, ast.Slice):
                return self.va_tuple()
            self.as_index(e.slice)
            if is_scalar(t):
                return None
            if isinstance(e.slice, ast.Constant) and isinstance(e.slice.value, int) and e.slice.value >= 0:
                return self.vars['*%d' % e.slice.value] if e.slice.value < self.fn.nva else None
            return self.va_choice()
        if isinstance(e, ast.JoinedStr):
            for x in e.values:
                if isinstance(x, ast.FormattedValue):
                    self.to_scalar(self.expr(x.value), self.ty(x.value), ['__format__', '__str__', '__repr__'])
            return None
        if isinstance(e, ast.Attribute):
            self.ty_.fn = self.cur()
            if self.ty_.root_module(e) is not None:
                return None
            self.ty_.fn = self.cur()
            ns = self.ty_.namespace(e.value)
            if ns is not None and ns[0] in ('class', 'func', 'pmodule'):
                # an attribute of a class / function / module object: module-level state
                if ns[0] == 'class' and ns[1] is not None:
                    if e.attr in w.classes[ns[1]]:
                        return None          # a function object; only meaningful when called
                    ca = w.class_attrs.get((ns[1], e.attr))
                    if ca is not None and ca[0] == 'scalar':
                        return None
                    r = self.newtmp('g')
                    self.emit('global', r, (ca[1] + 1) if ca is not None else 0)
                    return r
                if ns[0] == 'pmodule':
                    r2 = w.resolve_name(ns[1], e.attr)
                    if r2 and r2[0] == 'gobject':
                        r = self.newtmp('g')
                        self.emit('global', r, r2[1] + 1)
                        return r
                    if r2 is not None:
                        return None
                if e.attr in ('__name__', '__doc__', '__class__'):
                    return None
                r = self.newtmp('g')
                self.emit('global', r, 0)    # function attribute / unknown class or module attribute
                return r
            vb = self.expr(e.value)
            if vb is None or is_scalar(t) or e.attr in ('__class__', '__name__', '__doc__'):
                return None
            r = self.newtmp('f')
            self.emit('load', r, vb, ('f', self.field(e.attr)))
            return r
        if isinstance(e, ast.Subscript):
            vb = self.expr(e.value)
            if isinstance(e.slice, ast.Slice):
                for x in (e.slice.lower, e.slice.upper, e.slice.step):
                    self.as_index(x)
                if vb is None:
                    return None
                return self.copy_container(vb, self.ty(e.value))
            self.as_index(e.slice)
            if vb is None:
                return None
            tb = self.ty(e.value)
            # a library object indexed: __getitem__
            cands = [c for c in self.ty_.classes_of(tb) if '__getitem__' in w.classes[c]]
            if cands:
                return self.dunder([('__getitem__', vb, tb, [self.S])], self.ty_.may_be_plain(tb))
            if is_scalar(t):
                return None
            r = self.newtmp('e')
            self.emit('load', r, vb, 'e')
            return r
        if isinstance(e, ast.BinOp):
            return self.binop(BINOP[type(e.op)], e.left, e.right, None)
        if isinstance(e, ast.UnaryOp):
            vo = self.expr(e.operand)
            to = self.ty(e.operand)
            if isinstance(e.op, ast.Not):
                self.truth(vo, to)
                return None
            if vo is None or is_num(to):
                return None
            return self.dunder([(UNOP[type(e.op)], vo, to, [])], self.ty_.may_be_plain(to))
        if isinstance(e, ast.Compare):
            left = e.left
            vl = self.expr(left)
            for op, right in zip(e.ops, e.comparators):
                vr = self.expr(right)
                tl, tr = self.ty(left), self.ty(right)
                if isinstance(op, (ast.Is, ast.IsNot)):
                    pass
                elif isinstance(op, (ast.In, ast.NotIn)):
                    if not (is_num(tl) and is_num(tr)):
                        cands = [c for c in self.ty_.classes_of(tr) if '__contains__' in w.classes[c]]
                        if cands and vr is not None:
                            self.dunder([('__contains__', vr, tr, [self.v(vl)])], True, result_scalar=True)
                        if vr is not None and not is_num(tr) and not (is_scalar(tl)):
                            el = self.newtmp('e')
                            self.emit('load', el, vr, 'e')
                            self.dunder([('__eq__', el, elem_type(tr) or TU, [self.v(vl)]),
                                         ('__eq__', vl, tl, [el])], True, result_scalar=True)
                        elif vr is not None and not is_num(tr):
                            el = self.newtmp('e')
                            self.emit('load', el, vr, 'e')
                            self.dunder([('__eq__', el, elem_type(tr) or TU, [self.S])], True, result_scalar=True)
                elif not (is_num(tl) and is_num(tr)):
                    m, rm = CMPOP[type(op)]
                    cmpc = [(m, vl, tl, [self.v(vr)])]
                    if self.ty_.reflected_possible(tl, m):
                        cmpc.append((rm, vr, tr, [self.v(vl)]))
                    self.dunder(cmpc, True, result_scalar=True)
                left, vl = right, vr
            return None
        if isinstance(e, ast.BoolOp):
            vs = []
            for x in e.values:
                vx = self.expr(x)
                self.truth(vx, self.ty(x))
                vs.append(vx)
            if all(x is None for x in vs) or is_scalar(t):
                return None
            r = self.newtmp('b')
            self.choice([[('alias', r, x)] if x is not None else [('scalar', r)] for x in vs])
            return r
        if isinstance(e, ast.IfExp):
            vt = self.expr(e.test)
            self.truth(vt, self.ty(e.test))
            r = self.newtmp('c')
            res = []

            def br(x):
                def f():
                    vx = self.expr(x)
                    res.append(vx)
                    if vx is None:
                        self.emit('scalar', r)
                    else:
                        self.emit('alias', r, vx)
                return f
            a = self.block(br(e.body))
            b = self.block(br(e.orelse))
            self.emit('ite', a, b)
            return None if all(x is None for x in res) else r
        if isinstance(e, (ast.List, ast.Tuple, ast.Set)):
            r = self.newtmp('l')
            self.emit('new', r)
            for x in e.elts:
                if isinstance(x, ast.Starred):
                    vx = self.expr(x.value)
                    if vx is not None:
                        el = self.newtmp('e')
                        self.emit('load', el, vx, 'e')
                        self.emit('store', r, 'e', el)
                    continue
                vx = self.expr(x)
                if vx is not None:
                    self.emit('store', r, 'e', vx)     # scalar elements of a fresh display: no statement
            return r
        if isinstance(e, ast.Dict):
            r = self.newtmp('d')
            self.emit('new', r)
            for k, x in zip(e.keys, e.values):
                if k is not None:
                    self.expr(k)
                vx = self.expr(x)
                if vx is not None:
                    self.emit('store', r, 'e', vx)
            return r
        if isinstance(e, (ast.ListComp, ast.GeneratorExp, ast.SetComp)):
            r = self.newtmp('lc')
            self.emit('new', r)

            def gen(i):
                if i == len(e.generators):
                    vx = self.expr(e.elt)
                    if vx is not None:
                        self.emit('store', r, 'e', vx)
                    return
                g = e.generators[i]

                def body():
                    for c in g.ifs:
                        self.truth(self.expr(c), self.ty(c))
                    gen(i + 1)
                self.for_loop(g.target, g.iter, body)
            gen(0)
            return r
        if isinstance(e, ast.Call):
            return self.call(e)
        if isinstance(e, ast.Starred):
            return self.expr(e.value)
        if isinstance(e, ast.NamedExpr):
            v = self.expr(e.value)
            self.assign_to(e.target, v, self.ty(e.value))
            return v
        if isinstance(e, ast.Lambda):
            raise Havoc('lambda')
        raise Havoc('expression %s' % type(e).__name__)

    def is_vararg(self, e):
        return isinstance(e, ast.Name) and self.fn.vararg is not None and e.id == self.fn.vararg \
            and self.cur() is self.fn

    def va_vars(self):
        return [self.vars['*%d' % i] for i in range(self.fn.nva)]

    def subsequence_of_vararg(self, e):
        """e evaluates to *args itself or to a slice of it (also through conditional expressions)"""
        if self.is_vararg(e):
            return True
        if isinstance(e, ast.Subscript) and isinstance(e.slice, ast.Slice) and self.subsequence_of_vararg(e.value):
            for x in (e.slice.lower, e.slice.upper, e.slice.step):
                self.as_index(x)
            return True
        if isinstance(e, ast.IfExp):
            a, b = self.subsequence_of_vararg(e.body), self.subsequence_of_vararg(e.orelse)
            if a and b:
                self.truth(self.expr(e.test), self.ty(e.test))
                return True
        return False

    def va_choice(self):
        """some element of *args"""
        vs = self.va_vars()
        r = self.newtmp('va')
        self.choice([[('alias', r, x)] for x in vs] + [[('scalar', r)]])
        return r

    def va_tuple(self):
        """*args used as a value: materialise the tuple"""
        r = self.newtmp('vat')
        self.emit('new', r)
        for x in self.va_vars():
            self.emit('store', r, 'e', x)
        return r

    def as_index(self, x):
        """evaluate an index expression; a library object used as index: __index__/__int__ ignored"""
        if x is not None:
            self.expr(x)

    def field(self, name):
        if name not in self.w.fields:
            self.w.fields[name] = len(self.w.fields)
        return self.w.fields[name]

    def name_kind(self, name):
        f = self.cur()
        g = f
        while g is not None:
            if name in g.locals or name in g.nested:
                return None
            g = g.parent
        return self.w.resolve_name(f.module, name)

    def name(self, name, t):
        f = self.cur()
        if name in f.locals:
            if is_scalar(t) and is_scalar(f.locals[name] or TU):
                return None
            return self.var(name)
        g = f.parent
        while g is not None:
            if name in g.locals:
                # a variable of the enclosing function seen from a nested function: unknown object
                if is_scalar(g.locals[name] or TU):
                    return None
                r = self.newtmp('cl')
                self.emit('global', r, 0)
                return r
            g = g.parent
        r = self.w.resolve_name(f.module, name)
        if r is None:
            if name in ('True', 'False', 'None', 'NotImplemented', 'Ellipsis') or name in EXC_NAMES or \
                    name in ('list', 'tuple', 'dict', 'set', 'int', 'float', 'str', 'bool', 'object', 'complex'):
                return None
            raise Havoc('unknown name %s' % name)
        if r[0] == 'gobject':
            v = self.newtmp('g')
            self.emit('global', v, r[1] + 1)
            return v
        return None

    def copy_container(self, vb, tb):
        """a new container holding the elements of vb (list(x), x[:], sorted(x), tuple(x), x.copy())"""
        r = self.newtmp('cp')
        self.emit('new', r)
        if not is_scalar(elem_type(tb) or TU):
            el = self.newtmp('e')
            self.emit('load', el, vb, 'e')
            self.emit('store', r, 'e', el)
        return r

    def binop(self, op, left, right, inplace_target):
        """left op right;  inplace_target = variable for `x op= y` (tries __iop__ first)"""
        vl, vr = self.expr(left), self.expr(right)
        tl, tr = self.ty(left), self.ty(right)
        if is_scalar(tl) and is_scalar(tr):
            return None
        cands = []
        if inplace_target is not None:
            cands.append(('__i%s__' % op, vl, tl, [self.v(vr)]))
        cands.append(('__%s__' % op, vl, tl, [self.v(vr)]))
        if self.ty_.reflected_possible(tl, '__%s__' % op):
            cands.append(('__r%s__' % op, vr, tr, [self.v(vl)]))
        plain_l, plain_r = self.ty_.may_be_plain(tl), self.ty_.may_be_plain(tr)
        r = self.newtmp('o')
        alts = []
        save = self.out
        self.out = []
        res = self.dunder(cands, False, res=r)
        calls = self.out
        self.out = save
        if res is not None:
            alts.append(calls)
        if plain_l and plain_r:
            # plain values: numbers (scalar result) or builtin sequences (a new sequence / in-place extend)
            lists_l = any(x not in (S, OBJ) and not (isinstance(x, tuple) and x[0] == 'C') for x in tl)
            lists_r = any(x not in (S, OBJ) and not (isinstance(x, tuple) and x[0] == 'C') for x in tr)
            alts.append([('scalar', r)])
            seq_possible = (lists_l and lists_r) if op == 'add' else ((lists_l or lists_r) and op == 'mul')
            if seq_possible and (vl is not None or vr is not None):
                def mk():
                    if inplace_target is not None and vl is not None and lists_l:
                        # list += iterable mutates the list in place
                        if vr is not None:
                            el = self.newtmp('e')
                            self.emit('load', el, vr, 'e')
                            self.emit('store', vl, 'e', el)
                        else:
                            self.emit('store', vl, 'e', self.S)
                        self.emit('alias', r, vl)
                    else:
                        self.emit('new', r)
                        for vx, tx in ((vl, tl), (vr, tr)):
                            if vx is not None and not is_scalar(elem_type(tx) or TU):
                                el = self.newtmp('e')
                                self.emit('load', el, vx, 'e')
                                self.emit('store', r, 'e', el)
                alts.append(self.block(mk))
        if not alts:
            return None
        if len(alts) == 1 and alts[0] == [('scalar', r)]:
            return None
        self.choice(alts)
        return r

    # -- calls
    def call_args(self, call):
        pos, kw, star, dstar = [], {}, None, None
        for a in call.args:
            if isinstance(a, ast.Starred):
                if self.is_vararg(a.value):
                    star = ('spread', self.va_vars())
                else:
                    sv = self.expr(a.value)
                    if sv is None:
                        sv = self.newtmp('st')
                        self.emit('new', sv)
                    star = ('iter', sv)
            else:
                pos.append(self.expr(a))
        for k in call.keywords:
            if k.arg is None:
                dstar = self.expr(k.value)
            else:
                kw[k.arg] = self.expr(k.value)
        return pos, kw, star, dstar

    def call(self, call):
        w = self.w
        self.ty_.fn = self.cur()
        r = self.ty_.callee_fns(call)
        kind = r[0]
        tres = self.ty(call)
        if kind == 'unknown':
            raise Havoc(r[1])
        if kind in ('callback', 'callobj'):
            pos, kw, star, dstar = self.call_args(call)
            if not r[1]:
                return None
            vb = self.expr(call.func)
            res = self.newtmp('r')
            alts = []
            for g in r[1]:
                def mk(g=g):
                    self.call_fn(res, g, self.bind_args(g, pos, kw, star, dstar, recv=vb))
                alts.append(self.block(mk))
            if kind == 'callback':
                alts.append([('scalar', res)])
            self.choice(alts)
            return None if is_scalar(tres) else res
        if kind == 'math':
            for a in call.args:
                va = self.expr(a)
                ta = self.ty(a)
                if r[1] in ('fsum',):
                    self.sum_elems(va, ta)
                else:
                    self.to_scalar(va, ta, ['__float__', '__index__'])
            return None
        if kind == 'ext':
            pos, kw, star, dstar = self.call_args(call)
            for a, x in zip([x for x in call.args if not isinstance(x, ast.Starred)], pos):
                self.to_scalar(x, self.ty(a), ['__float__', '__index__', '__int__', '__str__'])
            return None
        if kind == 'ctor':
            pos, kw, star, dstar = self.call_args(call)
            obj = self.newtmp('n')
            self.emit('new', obj)
            init = w.classes[r[1]].get('__init__')
            if init and star is None and dstar is None and init not in self.inline_stack and self.plain_initialiser(init):
                self.inline(init, call, recv=obj, args=(pos, kw, None, None))
            elif init:
                args = self.bind_args(init, pos, kw, star, dstar, recv=obj)
                dummy = self.newtmp('u')
                self.call_fn(dummy, init, args)
            elif r[1] in w.namedtuples:
                # the instance holds the constructor's arguments in its fields (and as its elements)
                flds = w.namedtuples[r[1]]
                for i, a in enumerate(pos):
                    if a is not None:
                        self.emit('store', obj, ('f', self.field(flds[i])) if i < len(flds) else 'e', a)
                for k, a in kw.items():
                    if a is not None:
                        self.emit('store', obj, ('f', self.field(k)) if k in flds else 'e', a)
                for extra in ([star[1]] if star is not None and star[0] == 'iter' else
                              (list(star[1]) if star is not None else [])) + ([dstar] if dstar is not None else []):
                    if star is not None and star[0] == 'spread' and extra in star[1]:
                        self.emit('store', obj, 'e', extra)
                    else:
                        el = self.newtmp('e')
                        self.emit('load', el, extra, 'e')
                        self.emit('store', obj, 'e', el)
            elif pos or kw or star is not None or dstar is not None:
                raise Havoc('constructor arguments for a class without __init__')
            return obj
        if kind in ('fns', 'classcall'):
            pos, kw, star, dstar = self.call_args(call)
            g = r[1][0]
            res = self.newtmp('r')
            args = self.bind_args(g, pos, kw, star, dstar)
            self.call_fn(res, g, args)
            return None if is_scalar(tres) else res
        if kind == 'method':
            return self.method_call(call, r[1], r[2], r[3], tres)
        if kind == 'builtin':
            return self.builtin(call, r[1], tres)
        raise Havoc('call kind %s' % kind)

    def method_call(self, call, cands, plain, tb, tres):
        m = call.func.attr
        base = call.func.value
        # inlining of private, return-free helper methods called on self
        f = self.cur()
        if (len(cands) == 1 and cands[0].private and not cands[0].has_return_value and isinstance(base, ast.Name)
                and f.is_method and base.id == f.params[0] and cands[0].cls == f.cls
                and cands[0] not in self.inline_stack and not cands[0].vararg and not cands[0].kwarg):
            return self.inline(cands[0], call)
        vb = self.expr(base)
        pos, kw, star, dstar = self.call_args(call)
        if vb is None:
            # method of a scalar (str.format, float.is_integer, ...): arguments may be converted to str
            if m == 'format':
                for a, x in zip(call.args, pos):
                    self.to_scalar(x, self.ty(a), ['__format__', '__str__', '__repr__'])
            return None
        res = self.newtmp('r')
        alts = []
        for g in cands:
            g.noninlined_calls = True

            def mk(g=g):
                args = self.bind_args(g, pos, kw, star, dstar, recv=vb)
                self.call_fn(res, g, args)
            alts.append(self.block(mk))
        if plain or not cands:
            a0 = pos[0] if pos else None
            alast = pos[-1] if pos else None
            if m in M_APPEND:
                alts.append([('store', vb, 'e', self.v(alast)), ('scalar', res)])
            elif m in M_EXTEND:
                def mk():
                    if a0 is not None:
                        el = self.newtmp('e')
                        self.emit('load', el, a0, 'e')
                        self.emit('store', vb, 'e', el)
                    else:
                        self.emit('store', vb, 'e', self.S)
                    self.emit('scalar', res)
                alts.append(self.block(mk))
            elif m in M_MUT:
                def mk():
                    if m == 'sort':
                        self.compare_elems(vb, tb)
                    if m in ('pop', 'popitem', 'setdefault'):
                        self.emit('load', res, vb, 'e')
                    else:
                        self.emit('scalar', res)
                    self.emit('store', vb, 'e', self.v(a0) if m == 'setdefault' and len(pos) > 1 else self.S)
                alts.append(self.block(mk))
            elif m in ('copy', 'keys', 'values', 'items', '_asdict', '_replace'):
                def mk():
                    c = self.copy_container(vb, tb)
                    if m == '_replace':
                        for a in list(kw.values()):
                            if a is not None:
                                self.emit('store', c, 'e', a)
                    self.emit('alias', res, c)
                alts.append(self.block(mk))
            elif m == 'get':
                alts.append([('load', res, vb, 'e')] if not is_scalar(elem_type(tb) or TU) else [('scalar', res)])
            elif m in ('index', 'count'):
                def mk():
                    if not is_num(tb):
                        el = self.newtmp('e')
                        self.emit('load', el, vb, 'e')
                        self.dunder([('__eq__', el, elem_type(tb) or TU, [self.v(a0)])], True, result_scalar=True)
                    self.emit('scalar', res)
                alts.append(self.block(mk))
            elif m in M_PURE_SCALAR:
                def mk():
                    if m == 'format':
                        for a, x in zip(call.args, pos):
                            self.to_scalar(x, self.ty(a), ['__format__', '__str__', '__repr__'])
                    self.emit('scalar', res)
                alts.append(self.block(mk))
            elif not cands:
                raise Havoc('unknown method .%s()' % m)
        if not alts:
            raise Havoc('no candidate for method .%s()' % m)
        self.choice(alts)
        return None if is_scalar(tres) else res

    @staticmethod
    def plain_initialiser(g):
        """`__init__` of a private helper class that only assigns its parameters / constants to attributes of self
        (record classes, __slots__ holders): inlined at the construction site, so that what the new object holds is
        known there"""
        if g.name != '__init__' or not (g.cls or '').startswith('_') or g.vararg or g.kwarg or not g.params:
            return False
        body = [s for s in g.node.body if not (isinstance(s, ast.Expr) and isinstance(s.value, ast.Constant))]
        me = g.params[0]

        def simple(e):
            return isinstance(e, (ast.Name, ast.Constant)) or \
                (isinstance(e, (ast.Tuple, ast.List)) and all(simple(x) for x in e.elts))

        def selfattr(tg):
            if isinstance(tg, (ast.Tuple, ast.List)):
                return all(selfattr(x) for x in tg.elts)
            return isinstance(tg, ast.Attribute) and isinstance(tg.value, ast.Name) and tg.value.id == me
        for s in body:
            if isinstance(s, ast.Assign) and all(selfattr(tg) for tg in s.targets) and simple(s.value):
                continue
            if isinstance(s, ast.AnnAssign) and selfattr(s.target) and (s.value is None or simple(s.value)):
                continue
            return False
        return all(isinstance(d, ast.Constant) for d in g.defaults.values())

    def inline(self, g, call, recv=None, args=None):
        """Inline a private return-free helper method called as self.helper(...), or (recv = the variable holding
        the new object, args = the already evaluated arguments) a plain initialiser at a construction site."""
        pos, kw, star, dstar = args if args is not None else self.call_args(call)
        if star is not None or dstar is not None:
            raise Havoc('inlining with * arguments')
        ren = {}
        k = len(self.inline_stack)
        for nm in list(g.locals):
            ren[nm] = '%s@%s%d' % (nm, g.name, k)
        selfvar = recv if recv is not None else self.var(self.cur().params[0])
        ren[g.params[0]] = self.names[selfvar]
        actual = dict(zip(g.params[1:g.npos], pos))
        actual.update(kw)
        self.inline_stack.append(g)
        self.scope.append((ren, g))
        try:
            for p in g.params[1:]:
                x = self.var(p)
                if p in actual and actual[p] is not None:
                    self.emit('alias', x, actual[p])
                else:
                    self.emit('scalar', x)
            self.stmts(g.node.body)
        finally:
            self.scope.pop()
            self.inline_stack.pop()
        self.notes.append('inlined %s' % g.qual)
        self.inlined.add(g)
        g.inlined_somewhere = True
        return None

    def compare_elems(self, v, t):
        """elements of v are compared with each other (sort, max, min)"""
        te = elem_type(t) or TU
        if v is None or is_num(te):
            return
        el = self.newtmp('e')
        self.emit('load', el, v, 'e')
        self.dunder([('__lt__', el, te, [el]), ('__gt__', el, te, [el])], True, result_scalar=True)

    def sum_elems(self, v, t):
        te = elem_type(t) or TU
        if v is None or is_num(te):
            return None
        el = self.newtmp('e')
        self.emit('load', el, v, 'e')
        acc = self.newtmp('acc')
        body = self.block(lambda: self.emit_alias(acc, self.dunder(
            [('__add__', acc, te, [el]), ('__radd__', el, te, [acc]), ('__float__', el, te, [])], True)))
        self.emit('while', body)
        return acc

    def emit_alias(self, x, y):
        if y is None:
            self.emit('scalar', x)
        else:
            self.emit('alias', x, y)

    def builtin(self, call, n, tres):
        args = [a for a in call.args]
        if n in ('isinstance', 'issubclass', 'callable', 'hasattr', 'id', 'type'):
            self.expr(args[0]) if args else None
            return None
        if n == 'len' and len(args) == 1 and self.is_vararg(args[0]):
            return None
        if n in EXC_NAMES:
            for a in args:
                self.to_scalar(self.expr(a), self.ty(a), ['__str__'])
            return None
        if n in ('float', 'int', 'str', 'repr', 'bool', 'len', 'hash', 'format', 'abs', 'round', 'print', 'ord',
                 'chr', 'divmod', 'pow', 'complex'):
            names = {'float': ['__float__', '__index__'], 'int': ['__int__', '__index__', '__trunc__'],
                     'str': ['__str__', '__repr__'], 'repr': ['__repr__'], 'bool': ['__bool__', '__len__'],
                     'len': ['__len__'], 'hash': ['__hash__'], 'format': ['__format__', '__str__'],
                     'abs': ['__abs__'], 'round': ['__round__'], 'print': ['__str__', '__repr__'],
                     'divmod': ['__divmod__'], 'pow': ['__pow__']}.get(n, [])
            vs = [self.expr(a) for a in args]
            for k in call.keywords:
                self.expr(k.value)
            if n in ('abs', 'round') and vs and vs[0] is not None and not is_num(self.ty(args[0])):
                others = [self.v(x) for x in vs[1:]]
                return self.dunder([(names[0], vs[0], self.ty(args[0]), others)], self.ty_.may_be_plain(self.ty(args[0])))
            for a, x in zip(args, vs):
                if n == 'print' or a is args[0]:
                    self.to_scalar(x, self.ty(a), names)
            return None
        if n in ('max', 'min'):
            vs = [self.expr(a) for a in args]
            for k in call.keywords:
                raise Havoc('%s(key=...)' % n)
            if len(args) == 1:
                t0 = self.ty(args[0])
                self.compare_elems(vs[0], t0)
                if vs[0] is None or is_scalar(elem_type(t0) or TU):
                    return None
                r = self.newtmp('m')
                self.emit('load', r, vs[0], 'e')
                return r
            if all(is_num(self.ty(a)) for a in args) and is_scalar(tres):
                return None
            for a, x in zip(args, vs):
                if x is not None:
                    self.dunder([('__lt__', x, self.ty(a), [self.S]), ('__gt__', x, self.ty(a), [self.S])], True,
                                result_scalar=True)
            if all(x is None for x in vs):
                return None
            r = self.newtmp('m')
            self.choice([[('alias', r, x)] if x is not None else [('scalar', r)] for x in vs])
            return r
        if n in ('sum',):
            vs = [self.expr(a) for a in args]
            return self.sum_elems(vs[0], self.ty(args[0])) if vs else None
        if n in ('any', 'all'):
            vs = [self.expr(a) for a in args]
            if vs and vs[0] is not None and not is_num(self.ty(args[0])):
                el = self.newtmp('e')
                self.emit('load', el, vs[0], 'e')
                self.truth(el, elem_type(self.ty(args[0])) or TU)
            return None
        if n in ('list', 'tuple', 'sorted', 'reversed', 'set', 'dict', 'frozenset'):
            vs = [self.expr(a) for a in args]
            for k in call.keywords:
                if n == 'sorted' and k.arg == 'reverse':
                    self.expr(k.value)
                else:
                    raise Havoc('%s(%s=...)' % (n, k.arg))
            if not vs or vs[0] is None:
                r = self.newtmp('l')
                self.emit('new', r)
                return r
            if n == 'sorted':
                self.compare_elems(vs[0], self.ty(args[0]))
            return self.copy_container(vs[0], self.ty(args[0]))
        if n in ('range',):
            for a in args:
                self.to_scalar(self.expr(a), self.ty(a), ['__index__'])
            r = self.newtmp('l')
            self.emit('new', r)
            return r
        if n in ('zip', 'enumerate') and not call.keywords and not any(isinstance(a, ast.Starred) for a in args):
            # as a value: a new sequence of new tuples holding the elements of the arguments
            vs = [(self.expr(a), self.ty(a)) for a in args]
            r = self.newtmp('z')
            tup = self.newtmp('zt')
            self.emit('new', r)
            self.emit('new', tup)
            for (vx, tx) in vs:
                if vx is not None and not is_scalar(elem_type(tx) or TU):
                    cands = [c for c in self.ty_.classes_of(tx) if '__iter__' in self.w.classes[c] or '__getitem__' in self.w.classes[c]]
                    if cands:
                        raise Havoc('iteration over a library object')
                    el = self.newtmp('e')
                    self.emit('load', el, vx, 'e')
                    self.emit('store', tup, 'e', el)
            self.emit('store', r, 'e', tup)
            return r
        if n in ('enumerate', 'zip', 'map', 'filter', 'iter', 'next'):
            raise Havoc('%s() outside a for statement' % n)
        if n in ('getattr', 'setattr', 'delattr', 'exec', 'eval', 'open', 'input', 'globals', 'locals', 'vars',
                 'compile', '__import__', 'super'):
            raise Havoc('builtin %s()' % n)
        raise Havoc('unknown function %s()' % n)

    # -- statements
    def assign_to(self, tgt, v, tv):
        """tgt := value held in variable v (None = scalar) of type tv"""
        if isinstance(tgt, ast.Name):
            f = self.cur()
            if tgt.id not in f.locals:
                raise Havoc('assignment to non-local name %s' % tgt.id)
            if is_scalar(f.locals[tgt.id] or TU):
                return                      # untracked scalar variable
            x = self.var(tgt.id)
            self.emit_alias(x, v)
        elif isinstance(tgt, (ast.Tuple, ast.List)):
            for i, el in enumerate(tgt.elts):
                if isinstance(el, ast.Starred):
                    if v is None:
                        self.assign_to(el.value, None, TS)
                    else:
                        self.assign_to(el.value, self.copy_container(v, tv), fs(LST))
                    continue
                te = set()
                for x in tv:
                    if isinstance(x, tuple) and x[0] == 'T' and len(x[1]) == len(tgt.elts):
                        te |= set(x[1][i] or TU)
                    else:
                        te |= set(elem_type(fs(x)) or TU)
                te = frozenset(te) or TU
                if v is None or is_scalar(te):
                    self.assign_to(el, None, TS)
                else:
                    t = self.newtmp('u')
                    self.emit('load', t, v, 'e')
                    self.assign_to(el, t, te)
        elif isinstance(tgt, ast.Attribute):
            self.ty_.fn = self.cur()
            if self.ty_.namespace(tgt.value) is not None:
                raise Havoc('store to an attribute of a class, function or module object (%s)' % ast.unparse(tgt))
            vb = self.expr(tgt.value)
            if vb is not None:
                self.emit('store', vb, ('f', self.field(tgt.attr)), self.v(v))
            elif not self.surely_scalar(tgt.value):
                raise Havoc('store through an untracked value (%s)' % ast.unparse(tgt))
        elif isinstance(tgt, ast.Subscript):
            vb = self.expr(tgt.value)
            if vb is None and not self.surely_scalar(tgt.value):
                raise Havoc('store through an untracked value (%s)' % ast.unparse(tgt))
            if isinstance(tgt.slice, ast.Slice):
                for x in (tgt.slice.lower, tgt.slice.upper, tgt.slice.step):
                    self.as_index(x)
                if vb is not None:
                    if v is not None:
                        el = self.newtmp('e')
                        self.emit('load', el, v, 'e')
                        self.emit('store', vb, 'e', el)
                    else:
                        self.emit('store', vb, 'e', self.S)
                return
            self.as_index(tgt.slice)
            if vb is not None:
                tb = self.ty(tgt.value)
                cands = [c for c in self.ty_.classes_of(tb) if '__setitem__' in self.w.classes[c]]
                if cands:
                    self.dunder([('__setitem__', vb, tb, [self.S, self.v(v)])], self.ty_.may_be_plain(tb),
                                result_scalar=True)
                    if not self.ty_.may_be_plain(tb):
                        return
                self.emit('store', vb, 'e', self.v(v))
        else:
            raise Havoc('assignment target %s' % type(tgt).__name__)

    def surely_scalar(self, e):
        """a local (non-parameter) variable or literal whose inferred type is scalar: a store through it raises"""
        if isinstance(e, ast.Constant):
            return True
        f = self.cur()
        return isinstance(e, ast.Name) and e.id in f.locals and e.id not in f.allparams \
            and is_scalar(f.locals[e.id] or TU)

    def for_loop(self, target, it, body_fn):
        """for target in it: body"""
        self.ty_.fn = self.cur()
        binders = []
        is_builtin = (isinstance(it, ast.Call) and isinstance(it.func, ast.Name)
                      and self.name_kind(it.func.id) is None and it.func.id not in self.cur().locals)
        if is_builtin and it.func.id == 'range':
            for a in it.args:
                self.to_scalar(self.expr(a), self.ty(a), ['__index__'])
            binders.append(lambda: self.assign_to(target, None, TS))
        elif is_builtin and it.func.id == 'enumerate' and it.args:
            vi = self.expr(it.args[0])
            ti = self.ty(it.args[0])
            if not (isinstance(target, (ast.Tuple, ast.List)) and len(target.elts) == 2):
                raise Havoc('enumerate target')

            def b():
                self.assign_to(target.elts[0], None, TS)
                te = elem_type(ti) or TU
                if vi is None or is_scalar(te):
                    self.assign_to(target.elts[1], None, TS)
                else:
                    t = self.newtmp('u')
                    self.emit('load', t, vi, 'e')
                    self.assign_to(target.elts[1], t, te)
            binders.append(b)
        elif is_builtin and it.func.id == 'zip':
            vis = [(self.expr(a), self.ty(a)) for a in it.args]
            if not (isinstance(target, (ast.Tuple, ast.List)) and len(target.elts) == len(vis)):
                raise Havoc('zip target')

            def b():
                for el, (vi, ti) in zip(target.elts, vis):
                    te = elem_type(ti) or TU
                    if vi is None or is_scalar(te):
                        self.assign_to(el, None, TS)
                    else:
                        t = self.newtmp('u')
                        self.emit('load', t, vi, 'e')
                        self.assign_to(el, t, te)
            binders.append(b)
        elif self.is_vararg(it):
            te0 = self.fn.vararg_elem or TU

            def b():
                if is_scalar(te0):
                    self.assign_to(target, None, TS)
                else:
                    self.assign_to(target, self.va_choice(), te0)
            binders.append(b)
        else:
            vi = self.expr(it)
            ti = self.ty(it)
            if isinstance(it, ast.Name) and it.id == self.cur().vararg:
                te = self.cur().vararg_elem or TU
            else:
                te = elem_type(ti) or TU
            cands = [c for c in self.ty_.classes_of(ti) if '__iter__' in self.w.classes[c] or '__getitem__' in self.w.classes[c]]
            if cands:
                raise Havoc('iteration over a library object')

            def b():
                if vi is None or is_scalar(te):
                    self.assign_to(target, None, TS)
                else:
                    t = self.newtmp('u')
                    self.emit('load', t, vi, 'e')
                    self.assign_to(target, t, te)
            binders.append(b)

        def whole():
            for b in binders:
                b()
            body_fn()
        self.emit('while', self.block(whole))

    def stmts(self, body):
        """a block; after a statement containing break/continue the rest is optional"""
        for i, st in enumerate(body):
            self.stmt(st)
            if self.loop_depth and contains_jump([st]) and i + 1 < len(body):
                rest = self.block(lambda: self.stmts(body[i + 1:]))
                self.emit('ite', rest, [])
                return

    loop_depth = 0

    def stmt(self, st):
        mark = self.tmp_ptr
        try:
            self.stmt_(st)
        except Havoc as h:
            self.havoc(str(h))
        self.tmp_ptr = mark

    def stmt_(self, st):
        if isinstance(st, ast.Expr):
            if isinstance(st.value, ast.Constant):
                return
            self.expr(st.value)
        elif isinstance(st, ast.Assign):
            if len(st.targets) == 1 and isinstance(st.targets[0], (ast.Tuple, ast.List)) \
                    and isinstance(st.value, (ast.Tuple, ast.List)) and len(st.targets[0].elts) == len(st.value.elts) \
                    and not any(isinstance(x, ast.Starred) for x in st.targets[0].elts + st.value.elts):
                vals = []
                for x in st.value.elts:
                    vx = self.expr(x)
                    if vx is not None:
                        t = self.newtmp('p')
                        self.emit('alias', t, vx)
                        vx = t
                    vals.append((vx, self.ty(x)))
                for tg, (vx, tx) in zip(st.targets[0].elts, vals):
                    self.assign_to(tg, vx, tx)
                return
            if len(st.targets) == 1 and self.is_vararg(st.targets[0]):
                if self.subsequence_of_vararg(st.value):
                    return          # args = args[a:b] (possibly under a condition): a sub-sequence of the old *args
                raise Havoc('assignment to *args')
            if len(st.targets) == 1 and isinstance(st.targets[0], (ast.Tuple, ast.List)) and self.is_vararg(st.value) \
                    and not any(isinstance(x, ast.Starred) for x in st.targets[0].elts):
                # a, b = args: the i-th target is the i-th positional argument
                te = self.fn.vararg_elem or TU
                for i, tg in enumerate(st.targets[0].elts):
                    if i < self.fn.nva and not is_scalar(te):
                        self.assign_to(tg, self.vars['*%d' % i], te)
                    else:
                        self.assign_to(tg, None, TS)
                return
            v = self.expr(st.value)
            tv = self.ty(st.value)
            for tg in st.targets:
                self.assign_to(tg, v, tv)
        elif isinstance(st, ast.AnnAssign):
            if st.value is not None:
                self.assign_to(st.target, self.expr(st.value), self.ty(st.value))
        elif isinstance(st, ast.AugAssign):
            op = BINOP[type(st.op)]
            tgt = st.target
            load = ast.copy_location(ast.Name(id=tgt.id, ctx=ast.Load()), tgt) if isinstance(tgt, ast.Name) else None
            if load is None:
                import copy
                load = copy.deepcopy(tgt)
                for n in ast.walk(load):
                    if hasattr(n, 'ctx'):
                        n.ctx = ast.Load()
            r = self.binop(op, load, st.value, inplace_target=True)
            self.assign_to(tgt, r, self.ty_.ty(load) | self.ty(st.value))
        elif isinstance(st, ast.Return):
            v = self.expr(st.value) if st.value is not None else None
            if self.inline_stack:
                raise Havoc('return inside an inlined helper')
            self.emit('ret', self.v(v))
        elif isinstance(st, ast.Raise):
            if st.exc is not None:
                self.expr(st.exc)
            self.emit('raise')
        elif isinstance(st, ast.If):
            vt = self.expr(st.test)
            self.truth(vt, self.ty(st.test))
            self.ty_.fn = self.cur()
            self.ty_.narrow.append(self.ty_.narrowed(st.test))
            try:
                a = self.block(lambda: self.stmts(st.body))
            finally:
                self.ty_.narrow.pop()
            b = self.block(lambda: self.stmts(st.orelse))
            self.emit('ite', a, b)
        elif isinstance(st, ast.While):
            def test():
                vt = self.expr(st.test)
                self.truth(vt, self.ty(st.test))
            test()
            self.loop_depth += 1
            try:
                body = self.block(lambda: (self.stmts(st.body), test()))
            finally:
                self.loop_depth -= 1
            self.emit('while', body)
            if st.orelse:
                self.stmts(st.orelse)
        elif isinstance(st, ast.For):
            self.loop_depth += 1
            try:
                self.for_loop(st.target, st.iter, lambda: self.stmts(st.body))
            finally:
                self.loop_depth -= 1
            if st.orelse:
                self.stmts(st.orelse)
        elif isinstance(st, (ast.Pass, ast.Break, ast.Continue, ast.Import, ast.ImportFrom)):
            return
        elif isinstance(st, ast.Assert):
            self.truth(self.expr(st.test), self.ty(st.test))
        elif isinstance(st, ast.Delete):
            for tg in st.targets:
                if isinstance(tg, (ast.Subscript, ast.Attribute)):
                    self.assign_to(tg, None, TS)
                elif isinstance(tg, ast.Name) and tg.id not in self.cur().locals:
                    raise Havoc('del of a non-local name')
        elif isinstance(st, ast.FunctionDef):
            return            # nested helper: translated as a function of its own
        elif isinstance(st, ast.Try):
            # supported only when the protected block has no heap effect and calls no library code
            # (it then reduces to scalar assignments, any prefix of which may have happened)
            body = self.block(lambda: self.stmts(st.body))
            if not all(s[0] == 'scalar' for s in body):
                raise Havoc('try block with effects')
            for s in body:
                self.emit('ite', [s], [])
            alts = [self.block(lambda h=h: self.stmts(h.body)) for h in st.handlers]
            alts.append(self.block(lambda: self.stmts(st.orelse)))
            self.choice(alts)
            self.stmts(st.finalbody)
        elif isinstance(st, ast.Global):
            raise Havoc('global statement')
        else:
            raise Havoc('statement %s' % type(st).__name__)

    def run(self):
        # a decorator replaces the function by whatever it returns: only the ones whose effect is known are let
        # through (`functools.lru_cache`, `cache`, a hand-written memoiser ... keep state between calls)
        for d in getattr(self.fn.node, 'decorator_list', []):
            name = d.id if isinstance(d, ast.Name) else (d.attr if isinstance(d, ast.Attribute) else None)
            if name not in ('staticmethod', 'classmethod', 'property'):
                self.havoc('decorator ' + ast.unparse(d)[:60])
        self.stmts(self.fn.node.body)
        return self.out


# =============================================================================== analysis mirror
# A line-by-line mirror of `aexec` (lean/Pymeeus/Spec/Effects.lean), used to *propose* the summaries
# that the Lean `check` then verifies.  Nothing here is trusted.
LOOP_FUEL = 12


def a_le(a, b):
    if b == 'any' or a == b:
        return True
    if a == 'scal':
        return b in ('closed', 'fresh') or isinstance(b, tuple)
    if a == 'closed':
        return b == 'fresh'
    return False


def a_join(a, b):
    return b if a_le(a, b) else (a if a_le(b, a) else 'any')


def a_degrade(a):
    return 'fresh' if a == 'closed' else a


def l_get(l, i):
    return l[i] if 0 <= i < len(l) else 'any'


def l_set(l, i, a):
    if 0 <= i < len(l):
        l = list(l)
        l[i] = a
    return l


class Reject(Exception):
    def __init__(self, kind, data=None):
        Exception.__init__(self, kind)
        self.kind, self.data = kind, data


def s_le(s1, s2):
    if s1[2]:
        return True
    return (not s2[2]) and ((not s1[3]) or s2[3]) and \
        all(a_le(l_get(s1[0], i), l_get(s2[0], i)) for i in range(len(s2[0]))) and \
        all(a_le(l_get(s1[1], i), l_get(s2[1], i)) for i in range(len(s2[1])))


def s_join(s1, s2):
    if s1[2]:
        return s2
    if s2[2]:
        return s1
    return ([a_join(a, b) for a, b in zip(s1[0], s2[0])], [a_join(a, b) for a, b in zip(s1[1], s2[1])], False,
            s1[3] or s2[3])


def writable(me, a):
    if a in ('scal', 'closed', 'fresh'):
        return True
    if isinstance(a, tuple):
        return a[1] in me['writes']
    return False


def store_fld(s, ax, sel, ay):
    env, fld, dead, exposed = s
    if isinstance(ax, tuple):
        if ax[1] == 0 and sel != 'e':
            return (env, l_set(fld, sel[1], ay), dead, exposed)
        return (env, ['any'] * len(fld), dead, exposed)
    return s


def expose(me, s):
    """a reference to a new object is (or may be) stored into the own object of a parameter"""
    if me['keeps'] and not me['exposes']:
        raise Reject('exposes')
    return (s[0], s[1], s[2], True)


def s_degrade(s):
    return ([a_degrade(a) for a in s[0]], [a_degrade(a) for a in s[1]], s[2], s[3])


def aexec(sums, me, body, s):
    for st in body:
        s = aexec1(sums, me, st, s)
    return s


def aexec1(sums, me, st, s):
    k = st[0]
    env, fld, dead, exposed = s
    if k == 'scalar':
        return (l_set(env, st[1], 'scal'), fld, dead, exposed)
    if k == 'alias':
        return (l_set(env, st[1], l_get(env, st[2])), fld, dead, exposed)
    if k == 'global':
        return (l_set(env, st[1], 'any'), fld, dead, exposed)
    if k == 'new':
        return (l_set(env, st[1], 'closed'), fld, dead, exposed)
    if k == 'load':
        ay = l_get(env, st[2])
        if ay == 'closed':
            r = 'closed'
        elif ay == ('param', 0) and st[3] != 'e':
            r = l_get(fld, st[3][1])
        else:
            r = 'any'
        return (l_set(env, st[1], r), fld, dead, exposed)
    if k == 'store':
        ax, ay = l_get(env, st[1]), l_get(env, st[3])
        if not writable(me, ax):
            raise Reject('write', ax)
        isparam = isinstance(ax, tuple)
        if ay in ('scal', 'closed'):
            s1 = store_fld(s, ax, st[2], ay)
            if isparam and ay == 'closed':
                return expose(me, s1)
            return s1
        if isparam:
            if me['keeps']:
                raise Reject('keeps')
            s2 = store_fld(s_degrade(s), ax, st[2], ay)
            return (s2[0], s2[1], s2[2], True)
        if me['keeps'] and exposed:
            raise Reject('keeps')
        return store_fld(s_degrade(s), ax, st[2], ay)
    if k == 'call':
        x, g, ys = st[1], st[2], st[3]
        cs = sums[g.id]
        aargs = [l_get(env, y) for y in ys]
        for i in cs['writes']:
            if not (i < len(ys)):
                raise Reject('arity')
            if not writable(me, l_get(aargs, i)):
                raise Reject('write', l_get(aargs, i))
        touches = any(isinstance(l_get(aargs, i), tuple) for i in cs['writes'])
        s1 = (env, ['any'] * len(fld), dead, exposed) if touches else s

        def inst(aa, r):
            return l_get(aa, r[1]) if isinstance(r, tuple) else r
        if not cs['writes'] or cs['keeps']:
            if touches and cs['exposes']:
                s1 = expose(me, s1)
            return (l_set(s1[0], x, inst(aargs, cs['ret'])), s1[1], s1[2], s1[3])
        if touches:
            if me['keeps']:
                raise Reject('keeps')
            s2 = s_degrade(s1)
            return (l_set(s2[0], x, inst([l_get(s2[0], y) for y in ys], cs['ret'])), s2[1], s2[2], True)
        if me['keeps'] and exposed:
            raise Reject('keeps')
        s2 = s_degrade(s1)
        return (l_set(s2[0], x, inst([l_get(s2[0], y) for y in ys], cs['ret'])), s2[1], s2[2], s2[3])
    if k == 'ite':
        return s_join(aexec(sums, me, st[1], s), aexec(sums, me, st[2], s))
    if k == 'while':
        cur = s
        for _ in range(LOOP_FUEL):
            nxt = aexec(sums, me, st[1], cur)
            if s_le(nxt, cur):
                return cur
            cur = s_join(cur, nxt)
        raise Reject('fuel')
    if k == 'ret':
        a = l_get(env, st[1])
        if not a_le(a, me['ret']):
            raise Reject('ret', a)
        return (env, fld, True, exposed)
    if k == 'raise':
        return (env, fld, True, exposed)
    raise AssertionError(k)


def infer_summaries(fns, nfields):
    """Least summaries (writes, keeps, ret) under which every body is accepted, by iteration from
    the most optimistic ones.  A function that cannot be accepted (write through `any`) keeps its
    last summary and is reported; the Lean check will reject it."""
    sums = {f.id: {'writes': [], 'keeps': True, 'exposes': False, 'ret': 'scal'} for f in fns}
    rejected = {}
    for rnd in range(60):
        changed = False
        rejected = {}
        for f in fns:
            me = sums[f.id]
            for _ in range(40):
                entry = ([('param', i) for i in range(f.nparams)] + ['scal'] * (f.nvars - f.nparams), ['any'] * nfields, False, False)
                try:
                    aexec(sums, me, f.body, entry)
                    break
                except Reject as r:
                    if r.kind == 'write' and isinstance(r.data, tuple):
                        me['writes'] = sorted(set(me['writes']) | {r.data[1]})
                    elif r.kind == 'exposes':
                        me['exposes'] = True
                    elif r.kind == 'keeps':
                        me['keeps'] = False
                    elif r.kind == 'ret':
                        me['ret'] = a_join(me['ret'], r.data)
                    else:
                        rejected[f.qual] = '%s %s' % (r.kind, r.data)
                        break
                    changed = True
        if not changed:
            break
    return sums, rejected


# =============================================================================== driver / emission
def calls_in(body, acc):
    for st in body:
        if st[0] == 'call':
            acc.add(st[2])
        elif st[0] == 'ite':
            calls_in(st[1], acc)
            calls_in(st[2], acc)
        elif st[0] == 'while':
            calls_in(st[1], acc)


def size_of(body):
    n = 0
    for st in body:
        n += 1
        if st[0] == 'ite':
            n += size_of(st[1]) + size_of(st[2])
        elif st[0] == 'while':
            n += size_of(st[1])
    return n


def lean_aval(a):
    return '.param %d' % a[1] if isinstance(a, tuple) else '.' + a


def lean_sel(s):
    return '.elem' if s == 'e' else '(.field %d)' % s[1]


def lean_body(body):
    return 'blk [' + ', '.join(lean_stmt(s) for s in body) + ']'


def lean_stmt(st):
    k = st[0]
    if k == 'scalar':
        return '.scalar %d' % st[1]
    if k == 'alias':
        return '.alias %d %d' % (st[1], st[2])
    if k == 'global':
        return '.global %d %d' % (st[1], st[2])
    if k == 'new':
        return '.new %d' % st[1]
    if k == 'load':
        return '.load %d %d %s' % (st[1], st[2], lean_sel(st[3]))
    if k == 'store':
        return '.store %d %s %d' % (st[1], lean_sel(st[2]), st[3])
    if k == 'call':
        return '.call %d %d [%s]' % (st[1], st[2].id, ', '.join(str(y) for y in st[3]))
    if k == 'ite':
        return '.ite (%s) (%s)' % (lean_body(st[1]), lean_body(st[2]))
    if k == 'while':
        return '.while (%s)' % lean_body(st[1])
    if k == 'ret':
        return '.ret %d' % st[1]
    if k == 'raise':
        return '.raise'
    raise AssertionError(k)


def compute_nva(world, typer):
    """How many model parameters stand for *args in each variadic function."""
    for f in world.all:
        if not f.vararg:
            continue
        k, nonconst = 0, False
        for n in walk_own(f.node):
            if isinstance(n, ast.Subscript) and isinstance(n.value, ast.Name) and n.value.id == f.vararg:
                if isinstance(n.slice, ast.Constant) and isinstance(n.slice.value, int) and n.slice.value >= 0:
                    k = max(k, n.slice.value + 1)
                elif not isinstance(n.slice, ast.Slice):
                    nonconst = True
            if isinstance(n, (ast.For, ast.comprehension)) and isinstance(n.iter, ast.Name) and n.iter.id == f.vararg:
                nonconst = True
        f.nva = max(4, k, 8 if nonconst else 0)
    for _ in range(4):
        for f in world.all:
            typer.fn = f
            for n in walk_own(f.node):
                if not isinstance(n, ast.Call):
                    continue
                r = typer.callee_fns(n)
                if r[0] in ('fns', 'classcall'):
                    gs, off = r[1], 0
                elif r[0] in ('method', 'callobj', 'callback'):
                    gs, off = r[1], 1
                elif r[0] == 'ctor':
                    init = world.classes[r[1]].get('__init__')
                    gs, off = ([init] if init else []), 1
                else:
                    continue
                npos = off + len([a for a in n.args if not isinstance(a, ast.Starred)])
                for a in n.args:
                    if isinstance(a, ast.Starred) and isinstance(a.value, ast.Name) and a.value.id == f.vararg:
                        npos += f.nva
                for g in gs:
                    if g.vararg:
                        g.nva = min(12, max(g.nva, npos - g.npos))


def build():
    world = World()
    typer = Typer(world)
    compute_nva(world, typer)
    for f in world.all:
        f.inlined_somewhere = False
    for f in world.all:
        tr = Tr(world, typer, f)
        typer.narrow = []
        f.body = tr.run()
        f.nparams = tr.nparams
        f.nvars = len(tr.names)
        f.notes = tr.notes
        f.inlined = tr.inlined
        f.varnames = tr.names
    # helpers that exist only inlined are not functions of the program
    live = list(world.all)
    while True:
        ref = set()
        for f in live:
            calls_in(f.body, ref)
        drop = [f for f in live if f.inlined_somewhere and f not in ref]
        if not drop:
            break
        live = [f for f in live if f not in drop]
    for i, f in enumerate(live):
        f.id = i
    for f in live:
        if f.qual in DOCUMENTED_MUTATORS or (f.name == '__init__' and f.cls):
            f.kind = 'mutator'
        elif f.private or f.parent is not None:
            f.kind = 'helper'
        else:
            f.kind = 'pure'
    nfields = len(world.fields)
    sums, rejected = infer_summaries(live, nfields)
    for f in live:
        w_ = sums[f.id]['writes']
        names = mparams(f)
        if f.kind == 'pure' and w_:
            rejected[f.qual] = 'a public side-effect-free function writes its parameter(s) %s' % [names[i] for i in w_]
        elif f.kind == 'mutator' and any(i != 0 for i in w_):
            rejected[f.qual] = 'a mutator writes, besides its receiver, its parameter(s) %s' % [names[i] for i in w_ if i]
    return world, live, sums, rejected, nfields


def lean_sum(s):
    return '⟨[%s], %s, %s, %s⟩' % (', '.join(str(i) for i in s['writes']), 'true' if s['keeps'] else 'false',
                                   'true' if s['exposes'] else 'false', lean_aval(s['ret']))


CHECK_TEMPLATE = """import Pymeeus.Gen.Effects.Current
set_option maxRecDepth 100000
namespace Pymeeus.Effects.Current
open Pymeeus.Effects
/-- every function of module @M@ is accepted against its annotated summary (kernel evaluation) -/
theorem checked_@M@ : funs_@M@.all (checkFun nfields sums) = true := by decide +kernel
end Pymeeus.Effects.Current
"""


def emit_lean(world, live, sums, nfields, guards):
    """-> {relative file name: text}.  One file per module (built in parallel), Current.lean with the
    program, one Check_<module>.lean per module with the kernel-evaluated check, Checks.lean."""
    mods = []
    for f in live:
        if f.module not in mods:
            mods.append(f.module)
    files = {}
    hdr = '-- GENERATED by tools/py2effects.py from the pymeeus source; do not edit.\n'
    for m in mods:
        L = [hdr + 'import Pymeeus.Spec.Effects', 'set_option maxRecDepth 100000',
             'namespace Pymeeus.Effects.Current', 'open Pymeeus.Effects', '']
        for f in live:
            if f.module != m:
                continue
            L.append('/-- %s  (%s) -/' % (f.qual, ' '.join('%d=%s' % (i, n) for i, n in enumerate(f.varnames[:f.nparams + 1]))))
            L.append('def f%d : FunDecl := ⟨"%s", %d, %d,\n  %s,\n  .%s, %s⟩' % (
                f.id, f.qual, f.nparams, f.nvars, lean_body(f.body), f.kind, lean_sum(sums[f.id])))
        L.append('')
        L.append('def funs_%s : List FunDecl := [%s]' % (m, ', '.join('f%d' % f.id for f in live if f.module == m)))
        L.append('end Pymeeus.Effects.Current')
        files['M_%s.lean' % m] = '\n'.join(L) + '\n'
    L = [hdr] + ['import Pymeeus.Gen.Effects.M_%s' % m for m in mods] + [
        'import Pymeeus.Spec.Guards', 'set_option maxRecDepth 100000', 'namespace Pymeeus.Effects.Current',
        'open Pymeeus.Effects', '']
    L.append('/-- attribute names: %s -/' % ', '.join('%d=%s' % (i, n) for n, i in sorted(world.fields.items(), key=lambda x: x[1])))
    L.append('def nfields : Nat := %d' % nfields)
    L.append('/-- module-level objects: 0=(unknown object) %s -/' % ' '.join('%d=%s.%s' % (i + 1, g[0], g[1]) for i, g in enumerate(world.globals)))
    L.append('def nglobals : Nat := %d' % (len(world.globals) + 1))
    L.append('def funs : List FunDecl := ' + ' ++ '.join('funs_%s' % m for m in mods))
    L.append('def program : Program := ⟨nfields, funs⟩')
    L.append('def sums : List Summary := [%s]' % ', '.join(lean_sum(sums[f.id]) for f in live))
    L.append('')
    L.append(guards)
    L.append('end Pymeeus.Effects.Current')
    files['Current.lean'] = '\n'.join(L) + '\n'
    for m in mods:
        files['Check_%s.lean' % m] = hdr + CHECK_TEMPLATE.replace('@M@', m)
    L = [hdr] + ['import Pymeeus.Gen.Effects.Check_%s' % m for m in mods] + [
        'namespace Pymeeus.Effects.Current', 'open Pymeeus.Effects',
        'theorem sums_eq : program.sums = sums := by decide +kernel',
        'theorem all_checked : funs.all (checkFun nfields sums) = true := by',
        '  simp only [funs, List.all_append, Bool.and_eq_true]',
        '  exact ' + ''.join('⟨' for _ in mods[:-1]) + 'checked_%s' % mods[0] +
        ''.join(', checked_%s⟩' % m for m in mods[1:]),
        'end Pymeeus.Effects.Current']
    files['Checks.lean'] = '\n'.join(L) + '\n'
    return files, mods


FAIL_TEMPLATE = """-- GENERATED by tools/py2effects.py: the translator FAILED on the current source (@WHY@).
-- The skeleton below cannot be accepted, so the obligation check_current fails (never a silent pass).
import Pymeeus.Spec.Effects
import Pymeeus.Spec.Guards
namespace Pymeeus.Effects.Current
open Pymeeus.Effects
def nfields : Nat := 1
def f0 : FunDecl := ⟨"translator failure", 0, 2, blk [.global 0 0, .store 0 .elem 1], .pure, ⟨[], true, false, .scal⟩⟩
def funs : List FunDecl := [f0]
def program : Program := ⟨nfields, funs⟩
def sums : List Summary := [⟨[], true, false, .scal⟩]
def guards : List (String × List Nat × Pymeeus.Guards.GForm) := [("translator failure", [1], .ff)]
end Pymeeus.Effects.Current
"""

FAIL_CHECKS = """import Pymeeus.Gen.Effects.Current
namespace Pymeeus.Effects.Current
open Pymeeus.Effects
theorem sums_eq : program.sums = sums := by decide +kernel
theorem all_checked : funs.all (checkFun nfields sums) = true := by decide +kernel
end Pymeeus.Effects.Current
"""


SELFTEST_SOURCE = '''from __future__ import annotations

import math
from collections import namedtuple
from typing import Any
TABLE = [1, 2, 3]
COUNT = 0


class K(object):
    _cache = {}
    limit = 3

    @staticmethod
    def class_dict_from_static_method(x):
        K._cache[x] = 1
        return K._cache[x]

    def class_dict_through_instance_class(self, x):
        self.__class__._cache[x] = 1

    def class_dict_through_instance(self, x):
        self._cache[x] = 1


def function_attribute_cache(x):
    last = function_attribute_cache._last
    function_attribute_cache._last = x
    return last


def global_rebinding(x):
    global COUNT
    COUNT = x


def table_append(x):
    TABLE.append(x)


def table_pop(x):
    return TABLE.pop()


def class_dict_update(x):
    K._cache.update({x: 1})


def class_dict_clear(x):
    K._cache.clear()


def table_sort(x):
    TABLE.sort()


def table_setitem(x):
    TABLE[0] = x


def use_setattr(o, x):
    setattr(o, "a", x)


def default_argument(x, acc=[]):
    acc.append(x)
    return acc


def calls_default_argument(x):
    return default_argument(x)


def class_attribute_rebinding(x):
    K.limit = x


def module_attribute_store(x):
    math.tau2 = x


def del_table_item(x):
    del TABLE[0]


def ok_reads(x):
    return K._cache.get(x), K.limit, TABLE[0], function_attribute_cache._last


def ok_local_copy(x):
    t = list(TABLE)
    t.append(x)
    t.sort()
    return t


# ---- iteration helpers over module tables: reading is fine, writing a row is not
ROWS = [[1.0, 2.0], [3.0, 4.0]]
PAIRS = [(1.0, 2.0), (3.0, 4.0)]
NAMES = [0.5, 1.5]


def ok_zip_rows(x):
    rows = zip(NAMES, PAIRS, ROWS)
    acc = 0.0
    for n, pair, row in rows:
        a, b = pair
        acc += n * a + b + row[0]
    return acc


def ok_enumerate(x):
    acc = 0.0
    for i, row in enumerate(ROWS):
        acc += i * row[1]
    pairs = enumerate(NAMES)
    for i, v in pairs:
        acc += v
    return acc


def ok_reversed_sorted_slices(x):
    acc = 0.0
    for row in reversed(ROWS):
        acc += row[0]
    for v in sorted(NAMES):
        acc += v
    for row in ROWS[1:]:
        acc += row[1]
    for i in range(len(ROWS)):
        acc += ROWS[i][0]
    tail = NAMES[1:]
    tail.append(x)
    return acc, tail


def ok_condexpr_chain(x):
    a = b = 0.0
    t = ROWS[0] if x > 0 else ROWS[1]
    a += t[0]
    b += a
    p, q = abs(x), max(NAMES)
    first, second = PAIRS[0]
    return a + b + p + q + first + second


def zip_row_append(x):
    for n, row in zip(NAMES, ROWS):
        row.append(n)


def zip_value_row_append(x):
    rows = zip(NAMES, ROWS)
    for n, row in rows:
        row.append(n)


def zip_iadd_list(x):
    for n, row in zip(NAMES, ROWS):
        row += [1]


def zip_value_iadd_list(x):
    rows = zip(NAMES, ROWS)
    for n, row in rows:
        row += [n]


def enumerate_setitem(x):
    for i, row in enumerate(ROWS):
        row[0] = i


def enumerate_value_setitem(x):
    it = enumerate(ROWS)
    for i, row in it:
        row[0] = i


def reversed_row_sort(x):
    for row in reversed(ROWS):
        row.sort()


def slice_row_pop(x):
    for row in ROWS[1:]:
        row.pop()


def sorted_rows_clear(x):
    first = sorted(ROWS)[0]
    first.clear()


def condexpr_row_write(x):
    t = ROWS[0] if x > 0 else [0.0]
    t[0] = x


def chained_alias_write(x):
    a = b = ROWS[0]
    b.append(x)


def tuple_assign_write(x):
    p, q = ROWS[0], list(ROWS[1])
    p.append(x)


def unpack_row_write(x):
    first, second = ROWS
    second[0] = x


# ---- in-place operators: what `x += y` does follows from what the class's dunder does
class V(object):
    def __init__(self, v):
        self._v = v

    def __add__(self, b):
        if isinstance(b, V):
            return V(self._v + b._v)
        return V(self._v + float(b))

    def __iadd__(self, b):
        return self + b

    def reset(self):
        self._v = 0.0
        return self


class W(object):
    def __init__(self, v):
        self._v = v

    def __add__(self, b):
        return W(self._v + float(b))

    def __iadd__(self, b):
        result = self + b
        return result

    def __isub__(self, b):
        self = self + (-b)
        return self

    def reset(self):
        self._v = 0.0


class Bad(object):
    def __init__(self, v):
        self._v = v

    def __iadd__(self, b):
        self._v += b
        return self


def pair_of(x):
    return V(x), W(x)


def ok_iadd_forms(x):
    v, w = pair_of(x)
    v += x
    w += x
    w -= x
    v.reset()
    w.reset()
    return v, w


def ok_iadd_temporary(x, pieces):
    v = V(sum(p for p in pieces))
    v += x
    return v.reset()


def iadd_then_reset_parameter(v, x):
    w = v
    w += x
    v.reset()


def bad_iadd_caller(x):
    z = Bad(x)
    keep = z
    z += 1.0
    return keep


# ---- modern syntax: walrus, namedtuples, slots helpers, slices, kwargs.get, f-strings, annotations, dict dispatch,
# ---- generators consumed by all/any/sum/tuple/list, positional-only / keyword-only markers, tuples of types
_NUMBERS = (int, float)
Pair = namedtuple("Pair", ["first", "second"])
Span = namedtuple("Span", "lo hi")
LISTS = {"a": [1.0, 2.0], "b": [3.0]}
CONSTS = {"a": 1.0, "b": 2.0}


class _Box(object):
    __slots__ = ("items", "n")

    def __init__(self, items, n, /):
        self.items = items
        self.n = n


def ok_walrus(x):
    if (n := len(ROWS)) > 1:
        total = n * x
    else:
        total = 0.0
    while (k := total - 1.0) > 0.0:
        total = k
    return total


def ok_namedtuple(x, seq):
    p = Pair(x, 2.0 * x)
    s = Span(lo=min(seq), hi=max(seq))
    first, second = p
    q = p._replace(second=0.0)
    return p.first + second + s.hi - s.lo + q[1] + first


def ok_slices(x, *args):
    head = args[:2]
    evens = args[0::2]
    tail = ROWS[1:]
    tail.append([x])
    total = 0.0
    for a, b in zip(args[0::2], args[1::2]):
        total += a * b
    y, m, d = args[:3]
    return total, head, evens, len(tail), y + m + d


def ok_vararg_unpack(*args):
    a, b = args
    args = args[:-1] if len(args) % 2 else args
    return a + b + len(args)


def ok_kwargs_get(x, **kwargs):
    utc = kwargs.get("utc", False)
    leap = kwargs.get("leap_seconds", 0.0)
    return x + leap if utc else x


def ok_fstring(x):
    label = f"value {x:.3f} of {len(ROWS)}"
    other = "{} and {}".format(x, label)
    return label + other


def ok_annotations(x: float, seq: list[float] | None = None) -> tuple[float, int]:
    total: float = 0.0
    count: int
    count = 0
    for v in (seq or []):
        total += v
        count += 1
    return total + x, count


def ok_dict_dispatch(x, key):
    scale = CONSTS[key]
    factor = {"a": 1.0, "b": 60.0}.get(key, 3600.0)
    row = LISTS[key]
    return x * scale * factor + row[0]


def ok_generators(x, seq):
    if not all(isinstance(v, _NUMBERS) for v in seq):
        raise TypeError("numbers expected")
    if any(v < 0 for v in seq):
        return -1.0
    total = sum(v * x for v in seq)
    t = tuple(v + 1 for v in seq)
    r = list(v for v in reversed(range(3)))
    m = [v for v in seq if v > 0]
    return total, t, r, m


def _helper_kwonly(a, b, /, *, scale=1.0, shift=0.0):
    return (a + b) * scale + shift


def ok_markers(x):
    return _helper_kwonly(x, 2.0, scale=3.0) + _helper_kwonly(1.0, x, shift=x)


def ok_slots_helper(x, seq):
    box = _Box([1.0, 2.0], 2)
    box.items.append(3.0)
    held = _Box(seq, len(seq))
    return box.n + len(box.items) + held.n + held.items[0]


def ok_type_tuple(x):
    if isinstance(x, _NUMBERS):
        return x + 1.0
    return 0.0


def ok_early_chain(x):
    if not 0.0 <= x < 360.0:
        return None
    sign = -1.0 if x < 180.0 else 1.0
    return sign * x


def walrus_table_append(x):
    if (t := TABLE) is not None:
        t.append(x)


def walrus_row_write(x):
    while (row := ROWS[0]) and x > 0:
        row[0] = x
        x -= 1.0


def slice_row_mutated(x):
    part = ROWS[:1]
    part[0].append(x)


def slice_args_mutated(x, *args):
    head = args[:2]
    head[0].append(x)


def vararg_unpack_mutated(*args):
    a, b = args
    a.append(1.0)


def namedtuple_holds_param_list(x, seq):
    p = Pair(seq, x)
    p.first.append(x)


def namedtuple_unpacked_param_list(x, seq):
    p = Pair(x, seq)
    _, s = p
    s.append(x)


def namedtuple_index_param_list(x, seq):
    p = Pair(x, seq)
    p[1].append(x)


def namedtuple_replace_keeps_list(x, seq):
    p = Pair(x, seq)
    q = p._replace(first=0.0)
    q.second.append(x)


def namedtuple_keyword_param_list(x, seq):
    s = Span(lo=seq, hi=x)
    s.lo.append(x)


def kwargs_get_mutated(x, **kwargs):
    acc = kwargs.get("acc", None)
    acc.append(x)


def kwargs_get_default_global(x, **kwargs):
    acc = kwargs.get("acc", TABLE)
    acc.append(x)


def dict_dispatch_list_mutated(x, key):
    LISTS[key].append(x)


def dict_dispatch_get_mutated(x, key):
    row = LISTS.get(key)
    row[0] = x


def local_dict_of_tables_mutated(x, key):
    d = {"rows": ROWS, "names": NAMES}
    d[key].append(x)


def generator_mutates(x):
    return all(row.append(x) is None for row in ROWS)


def sum_generator_mutates(x):
    return sum(TABLE.pop() for _ in range(2))


def listcomp_mutates(x):
    return [row.pop() for row in ROWS]


def kwonly_mutated(x, *, acc):
    acc.append(x)


def caller_kwonly_global(x):
    kwonly_mutated(x, acc=TABLE)


def posonly_mutated(acc, x, /):
    acc.append(x)


class Keeper(object):
    def __init__(self):
        self._box = None

    def view(self, x):
        self._box = _Box([x], 1)
        return self._box.n


def slots_helper_holds_param(x, seq):
    box = _Box(seq, len(seq))
    box.items.append(x)


def fstring_mutates(x):
    return f"{TABLE.pop()}"


def annotated_mutates(x: float, seq: list) -> None:
    seq.append(x)
'''


def selftest():
    """The translator + analysis on the shapes of hidden module-level state: every function of the synthetic
    module must be rejected, except the ok_* ones.  -> list of (name, expected, got)"""
    import tempfile
    global REPO, PKG
    save = (REPO, PKG)
    d = tempfile.mkdtemp(prefix='py2effects-selftest-')
    try:
        os.makedirs(os.path.join(d, 'pymeeus'))
        open(os.path.join(d, 'pymeeus', 'hidden.py'), 'w').write(SELFTEST_SOURCE)
        REPO, PKG = d, os.path.join(d, 'pymeeus')
        DOCUMENTED_MUTATORS.extend(['V.reset', 'W.reset'])
        try:
            world, live, sums, rejected, nfields = build()
        finally:
            del DOCUMENTED_MUTATORS[-2:]
        out = []
        for f in live:
            expected_ok = f.name.startswith('ok_') or f.name in ('__init__', 'pair_of', 'bad_iadd_caller', '_helper_kwonly') or \
                (f.cls in ('V', 'W') and True)
            got_ok = f.qual not in rejected
            out.append((f.qual, expected_ok, got_ok))
        return out
    finally:
        REPO, PKG = save
        import shutil
        shutil.rmtree(d, ignore_errors=True)


def spec_name(f):
    """'pymeeus/Epoch.py:Epoch.is_leap' (the form of the harness FUNCTIONS specs)"""
    q = f.qual if f.cls and f.parent is None else f.qual.split('.', 1)[1] if not f.cls else f.qual
    if f.cls and f.parent is not None:
        q = f.qual
    return 'pymeeus/%s.py:%s' % (f.module, q)


def write_report(world, live, rejected):
    """lean/.work/effects_report.json: per function its kind, the call graph as the analysis resolves it
    (over-approximated: every class a dynamic call may dispatch to), and whether the analysis accepts it."""
    live_set = set(live)
    inliners = {}
    for f in world.all:
        for g in getattr(f, 'inlined', ()):
            inliners.setdefault(g, []).append(f)
    funs = []
    for f in world.all:
        callees = set()
        calls_in(f.body, callees)
        callees |= set(getattr(f, 'inlined', ()))
        if f in live_set:
            kind, accepted = f.kind, f.qual not in rejected
        else:       # a private helper that exists only inlined into its callers
            kind = 'helper'
            accepted = all(g.qual not in rejected for g in inliners.get(f, []))
            if not accepted:
                bad = [g.qual for g in inliners.get(f, []) if g.qual in rejected]
                rejected = dict(rejected)
                rejected[f.qual] = 'exists only inlined into %s, which is rejected (%s)' % (bad[0], rejected[bad[0]])
        funs.append({'name': spec_name(f), 'qual': f.qual, 'kind': kind, 'accepted': accepted,
                     'reason': rejected.get(f.qual), 'inlined_only': f not in live_set,
                     'callees': sorted(spec_name(g) for g in callees)})
    os.makedirs(os.path.dirname(OUT_REPORT), exist_ok=True)
    with open(OUT_REPORT, 'w') as fh:
        json.dump({'repo': REPO, 'translator_failed': None, 'functions': funs}, fh, indent=1)


def source_stamp():
    import hashlib
    h = hashlib.sha256()
    h.update(open(os.path.abspath(__file__), 'rb').read())
    h.update(PKG.encode())
    try:
        for fn in sorted(os.listdir(PKG)):
            if fn.endswith('.py'):
                h.update(fn.encode())
                h.update(open(os.path.join(PKG, fn), 'rb').read())
    except OSError as e:
        h.update(repr(e).encode())
    return h.hexdigest()


def main():
    if '--selftest' in sys.argv:
        res = selftest()
        bad = [r for r in res if r[1] != r[2]]
        for r in res:
            print('%-55s expected %-8s got %-8s %s' % (r[0], 'accept' if r[1] else 'reject', 'accept' if r[2] else 'reject',
                                                        '' if r[1] == r[2] else '<-- WRONG'))
        return 1 if bad else 0
    d = os.path.dirname(OUT_LEAN)
    stamp_file = os.path.join(_WORK, 'effects.stamp')
    stamp = source_stamp()
    plain = not any(a in sys.argv for a in ('--report', '--dump', '--force'))
    if plain and os.path.exists(stamp_file) and open(stamp_file).read() == stamp \
            and os.path.exists(OUT_LEAN) and os.path.exists(OUT_JSON) and os.path.exists(OUT_REPORT):
        return 0            # source and translator unchanged since the last run
    try:
        return main_()
    except Exception as e:      # noqa: a source the translator cannot even read must not pass
        import traceback
        why = '%s: %s' % (type(e).__name__, str(e).replace('\n', ' ')[:200])
        os.makedirs(d, exist_ok=True)
        for fn in os.listdir(d):
            if fn.endswith('.lean'):
                os.remove(os.path.join(d, fn))
        open(OUT_LEAN, 'w').write(FAIL_TEMPLATE.replace('@WHY@', why))
        open(os.path.join(d, 'Checks.lean'), 'w').write(FAIL_CHECKS)
        os.makedirs(os.path.dirname(OUT_JSON), exist_ok=True)
        json.dump({'failed': why, 'trace': traceback.format_exc(), 'functions': [], 'rejected': {'translator': why},
                   'giveups': [], 'assumptions': [], 'guards': {'guarded': [], 'unguarded': []}, 'globals': []},
                  open(OUT_JSON, 'w'), indent=1)
        os.makedirs(os.path.dirname(OUT_REPORT), exist_ok=True)
        json.dump({'repo': REPO, 'translator_failed': why, 'functions': []}, open(OUT_REPORT, 'w'), indent=1)
        print('py2effects: FAILED on the current source: ' + why)
        with open(stamp_file, 'w') as fh:
            fh.write(stamp)
        return 0


def main_():
    world, live, sums, rejected, nfields = build()
    guards_lean, guards_json = extract_guards(world, live)
    files, mods = emit_lean(world, live, sums, nfields, guards_lean)
    d = os.path.dirname(OUT_LEAN)
    os.makedirs(d, exist_ok=True)
    for fn in os.listdir(d):
        if fn.endswith('.lean') and fn not in files:
            os.remove(os.path.join(d, fn))
    for fn, text in files.items():
        p = os.path.join(d, fn)
        if not os.path.exists(p) or open(p).read() != text:     # unchanged files keep lake's cache valid
            open(p, 'w').write(text)
    info = {
        'repo': REPO, 'modules': mods, 'nfields': nfields,
        'fields': world.fields,
        'globals': ['%s.%s' % g for g in world.globals],
        'functions': [{'id': f.id, 'qual': f.qual, 'module': f.module, 'cls': f.cls, 'name': f.name, 'kind': f.kind,
                       'nparams': f.nparams, 'size': size_of(f.body), 'summary': sums[f.id], 'notes': f.notes}
                      for f in live],
        'rejected': rejected, 'giveups': world.giveups, 'assumptions': sorted(world.assumptions),
        'guards': guards_json,
    }
    os.makedirs(os.path.dirname(OUT_JSON), exist_ok=True)
    with open(OUT_JSON, 'w') as fh:
        json.dump(info, fh, indent=1, default=str)
    write_report(world, live, rejected)
    if '--dump' in sys.argv:
        q = sys.argv[sys.argv.index('--dump') + 1]
        for f in live:
            if f.qual == q:
                print(q, 'kind', f.kind, 'summary', sums[f.id], 'notes', f.notes)
                print(' vars:', ' '.join('%d=%s' % (i, n) for i, n in enumerate(f.varnames)))
                dump_body(f.body, 1)
    if '--why' in sys.argv:
        # which statement of a function the analysis refuses, with the abstract values involved
        q = sys.argv[sys.argv.index('--why') + 1]
        orig = aexec1

        def traced(sums_, me, st, s):
            try:
                return orig(sums_, me, st, s)
            except Reject as r:
                if st[0] in ('store', 'call', 'ret'):
                    vs = st[3] if st[0] == 'call' else [x for x in (st[1], st[3] if st[0] == 'store' else None) if x is not None]
                    print('REFUSED', st[0], st[2].qual if st[0] == 'call' else st[1:], r.kind, r.data,
                          [(traced.names[v] if v < len(traced.names) else v, l_get(s[0], v)) for v in vs], 'exposed' if s[3] else '')
                raise
        globals()['aexec1'] = traced
        for f in live:
            if f.qual == q:
                traced.names = f.varnames
                print(q, 'summary', sums[f.id])
                try:
                    aexec(sums, sums[f.id], f.body, ([('param', i) for i in range(f.nparams)] + ['scal'] * (f.nvars - f.nparams),
                                                     ['any'] * nfields, False, False))
                    print('accepted')
                except Reject as r:
                    print('rejected:', r.kind, r.data)
        globals()['aexec1'] = orig
    if '--report' in sys.argv:
        pub = [f for f in live if f.kind != 'helper']
        print('functions: %d (%d public: %d pure, %d mutators; %d helpers)' % (
            len(live), len(pub), len([f for f in pub if f.kind == 'pure']), len([f for f in pub if f.kind == 'mutator']),
            len(live) - len(pub)))
        print('statements: %d' % sum(size_of(f.body) for f in live))
        print('rejected by the analysis:', json.dumps(rejected, indent=1))
        print('give-ups (havoc):', json.dumps(world.giveups, indent=1))
        print('assumptions:', json.dumps(sorted(world.assumptions), indent=1))
        print('writers:', [(f.qual, sums[f.id]['writes'], sums[f.id]['keeps']) for f in live if sums[f.id]['writes']])
    with open(os.path.join(_WORK, 'effects.stamp'), 'w') as fh:
        fh.write(source_stamp())
    return 0


def dump_body(body, ind):
    for st in body:
        if st[0] == 'ite':
            print('  ' * ind + 'if *:')
            dump_body(st[1], ind + 1)
            if st[2]:
                print('  ' * ind + 'else:')
                dump_body(st[2], ind + 1)
        elif st[0] == 'while':
            print('  ' * ind + 'while *:')
            dump_body(st[1], ind + 1)
        elif st[0] == 'call':
            print('  ' * ind + 'call %d := %s(%s)' % (st[1], st[2].qual, st[3]))
        else:
            print('  ' * ind + ' '.join(str(x) for x in st))


def extract_guards(world, live):
    """Head-of-function isinstance guards -> (Lean text, json).  A guard is
       `if <formula>: raise TypeError(...)` statements at the head of the body, or a leading
       if/elif/.../else chain whose tests are isinstance formulas and whose else is `raise TypeError`.
       The formula is kept as written (and / or / not over isinstance(param, classes))."""
    out, listed = [], []

    def is_raise_typeerror(body):
        if len(body) != 1 or not isinstance(body[0], ast.Raise) or body[0].exc is None:
            return False
        e = body[0].exc
        if isinstance(e, ast.Call):
            e = e.func
        return isinstance(e, ast.Name) and e.id == 'TypeError'

    class NotGuard(Exception):
        pass

    def form(t, f, args, classes):
        if isinstance(t, ast.BoolOp):
            parts = [form(v, f, args, classes) for v in t.values]
            op = 'and' if isinstance(t.op, ast.And) else 'or'
            r = parts[0]
            for q in parts[1:]:
                r = (op, r, q)
            return r
        if isinstance(t, ast.UnaryOp) and isinstance(t.op, ast.Not):
            return ('not', form(t.operand, f, args, classes))
        if isinstance(t, ast.Call) and isinstance(t.func, ast.Name) and t.func.id == 'isinstance' and len(t.args) == 2 \
                and isinstance(t.args[0], ast.Name) and t.args[0].id in f.params:
            a = t.args[0].id
            if a not in args:
                args.append(a)
                classes[a] = []
            names = t.args[1].elts if isinstance(t.args[1], ast.Tuple) else [t.args[1]]
            idx = []
            for n in names:
                nm = ast.unparse(n)
                if nm not in classes[a]:
                    classes[a].append(nm)
                idx.append(classes[a].index(nm) + 1)
            return ('isa', args.index(a), idx)
        raise NotGuard()

    def lean(g):
        if g[0] == 'isa':
            return '(.isa %d [%s])' % (g[1], ', '.join(map(str, g[2])))
        if g[0] == 'not':
            return '(.not %s)' % lean(g[1])
        return '(.%s %s %s)' % (g[0], lean(g[1]), lean(g[2]))

    for f in live:
        if f.kind == 'helper':
            continue
        body = list(f.node.body)
        if body and isinstance(body[0], ast.Expr) and isinstance(body[0].value, ast.Constant):
            body = body[1:]
        args, classes, rejects = [], {}, []
        for st in body:
            if not isinstance(st, ast.If):
                break
            try:
                if is_raise_typeerror(st.body) and not st.orelse:
                    rejects.append(form(st.test, f, args, classes))
                    continue
                # if / elif / else: raise TypeError chain
                tests, cur = [], st
                while True:
                    tests.append(cur.test)
                    if len(cur.orelse) == 1 and isinstance(cur.orelse[0], ast.If):
                        cur = cur.orelse[0]
                        continue
                    break
                if is_raise_typeerror(cur.orelse):
                    a2, c2 = list(args), {k: list(v) for k, v in classes.items()}
                    fs_ = [form(t, f, a2, c2) for t in tests]
                    args[:], classes = a2, c2
                    r = fs_[0]
                    for q in fs_[1:]:
                        r = ('or', r, q)
                    rejects.append(('not', r))
                break
            except NotGuard:
                break
        if not rejects:
            listed.append(f.qual)
            continue
        r = rejects[0]
        for q in rejects[1:]:
            r = ('or', r, q)
        sizes = [len(classes[a]) for a in args]
        nvals = 1
        for s_ in sizes:
            nvals *= s_ + 1
        if nvals > 20000:
            listed.append(f.qual + ' (guard over too many combinations: %d)' % nvals)
            continue
        out.append({'qual': f.qual, 'args': args, 'classes': [classes[a] for a in args], 'sizes': sizes,
                    'formula': r, 'lean': lean(r), 'combinations': nvals})
    L = ['/-- isinstance guards at the head of the public functions: (name, number of classes named per guarded',
         'argument, the rejecting formula as written in the source) -/',
         'def guards : List (String × List Nat × Pymeeus.Guards.GForm) := [']
    L.append(',\n'.join('  ("%s", [%s], %s)' % (g['qual'], ', '.join(map(str, g['sizes'])), g['lean']) for g in out))
    L.append(']')
    return '\n'.join(L), {'guarded': out, 'unguarded': listed}


if __name__ == '__main__':
    sys.exit(main())
