#!/bin/sh
# tools/seeded_all.sh [tier]  : run every kept seeded change against the current tree (private copy of /repo), summarise
ROOT="$(cd "$(dirname "$0")/.." && pwd)"; cd "$ROOT"
tier="${1:-quick}"
for d in seeded/*/; do
  id=$(basename "$d"); prop=$(python3 -c "import json;print(json.load(open('$d/meta.json'))['breaks'])")
  if python3 -c "import json,sys;sys.exit(0 if json.load(open('$d/meta.json')).get('superseded') else 1)"; then echo "$id $prop superseded (patch targets code removed by a later fix)"; continue; fi
  SEEDED_COPY=1 tools/seeded.sh run "$id" "$prop" "$tier" > .work/seeded-all-$id.log 2>&1; rc=$?
  echo "$id $prop exit=$rc $(grep -o 'VIOLATION.*' .work/seeded-all-$id.log | head -1 | cut -c1-120)"
done
